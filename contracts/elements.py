"""C03 (c): information elements.  Every element enumeration of etsi/layer2/elements and etsi/layer3/elements that has
from_bits / as_bits is total over its bit width: the real Enum call (with the class's own _missing_) on a symbolic
w-bit value; plus the non-enum elements ServiceOptions and FragmentSequenceNumber."""
import enum
import importlib
import pkgutil

from pyvc.contract import contract
from contracts.pdu_common import DOCUMENTED, same

ELEMENTS = {}
for pkgname in ("okdmr.dmrlib.etsi.layer2.elements", "okdmr.dmrlib.etsi.layer3.elements"):
    pkg = importlib.import_module(pkgname)
    for mi in pkgutil.iter_modules(pkg.__path__):
        m = importlib.import_module(pkgname + "." + mi.name)
        for name, obj in vars(m).items():
            if isinstance(obj, type) and issubclass(obj, enum.Enum) and obj.__module__ == m.__name__:
                members = list(obj)
                if members and all(isinstance(x.value, int) and x.value >= 0 for x in members):
                    ELEMENTS[name] = obj


# What an UNDEFINED value of each element decodes to: the member that stands for the range the value lies in (transcribed from
# the value-range tables of ETSI TS 102 361-1 / -2 / -3 / -4 that the classes cite - "reserved", "manufacturer specific",
# "reserved for future MFID" ... - independent of the classes' _missing_ code; classes absent here raise on undefined values)
FOLD = {
    "ActivityID": [(0, 15, "Reserved")],
    "AnnouncementType": [(0, 30, "Reserved"), (31, 31, "ManufacturerSpecific")],
    "DataPacketFormats": [(0, 15, "Reserved")],
    "DataTypes": [(0, 15, "Reserved")],
    "DefinedDataFormats": [(0, 63, "Reserved")],
    "FeatureSetIDs": [(1, 3, "ReservedForFutureStandardization"), (4, 127, "FlydeMicroLtd"), (128, 255, "ReservedForFutureMFID")],  # (first MFID stands for the MFID range)
    "IPAddressIdentifier": [(0, 12, "Reserved"), (13, 15, "ManufacturerSpecific")],
    "SAPIdentifier": [(0, 15, "Reserved")],
    "SLCOs": [(0, 12, "Reserved"), (13, 15, "ManufacturerSelectable")],
    "UDPPortIdentifier": [(0, 95, "Reserved"), (96, 127, "ManufacturerSpecific")],
    "UDTFormat": [(8, 9, "ManufacturerSpecific"), (0, 7, "Reserved"), (10, 15, "Reserved")],
}


def fold_clause(vc, cls, element, v, m, defined):
    """undefined value -> the member of its range (FOLD); defined values are the business of the clause next to this one"""
    if element not in FOLD:
        return vc.or_(*[vc.eq(m.value, x.value) for x in cls])
    ok = []
    for lo, hi, name in FOLD[element]:
        inside = vc.and_(v >= lo, v <= hi) if vc.mode == "native" else vc.and_(vc.not_(v < lo), vc.not_(v > hi))
        ok.append(vc.implies(vc.and_(inside, vc.not_(defined)), vc.eq(m.value, cls[name].value)))
    return vc.and_(*ok)


def width_of(cls):
    from bitarray import bitarray

    m = list(cls)[0]
    return len(type(m).as_bits(m)) if True else 0


@contract("Element.enum_total", "okdmr.dmrlib.etsi.layer2.elements:*", ["C03", "C19"],
          note="one shape per element enumeration class (layer2 and layer3 elements); target = that class's from_bits / as_bits / _missing_")
def enum_total(vc, element, w):
    cls = ELEMENTS[element]
    v = vc.uint(w, "v")
    bits = vc.mkbits(vc.bitlist(v, w))
    defined = vc.or_(*[vc.eq(v, m.value) for m in cls])
    if not hasattr(cls, "from_bits"):  # plain enumeration: the Enum call itself is the decoder
        try:
            m = cls(v)
        except DOCUMENTED:
            vc.prove("only_an_undefined_value_raises", vc.not_(defined))
            return
        vc.prove("never_maps_to_nothing", m is not None)
        vc.prove("a_defined_value_maps_to_itself", vc.implies(defined, vc.eq(m.value, v)))
        vc.prove("an_undefined_value_maps_to_the_reserved_member_of_its_range", fold_clause(vc, cls, element, v, m, defined))
        return
    try:
        m = cls.from_bits(bits)
    except DOCUMENTED:
        vc.prove("only_an_undefined_value_raises", vc.not_(defined))
        return
    vc.prove("never_maps_to_nothing", m is not None)
    vc.prove("result_is_a_member_of_the_enumeration", type(m).__name__ == "SymMember" and m._cls is cls or isinstance(m, cls))
    vc.prove("a_defined_value_maps_to_itself", vc.implies(defined, vc.eq(m.value, v)))
    vc.prove("an_undefined_value_maps_to_the_reserved_member_of_its_range", fold_clause(vc, cls, element, v, m, defined))
    back = m.as_bits()
    vc.prove("serialises_to_its_fixed_width", len(back) == w)
    vc.prove("a_defined_value_serialises_to_equal_bits", vc.implies(defined, vc.eq(back, bits)))
    vc.prove("decode_of_the_serialisation_is_the_same_member", same(vc, cls.from_bits(back), m))


def _enum_shapes(tier):
    out = []
    for name, cls in sorted(ELEMENTS.items()):
        m = list(cls)[0]
        if hasattr(cls, "as_bits") and hasattr(cls, "from_bits"):
            w = len(m.as_bits())
        else:
            w = max(max(x.value for x in cls).bit_length(), 1)
        if w <= 16:
            out.append(dict(element=name, w=w))
    return out


enum_total.shapes = _enum_shapes


@contract("ServiceOptions.build_parse", "okdmr.dmrlib.etsi.layer3.elements.service_options:ServiceOptions.from_bits", ["C03", "C19"])
def service_options_roundtrip(vc):
    from okdmr.dmrlib.etsi.layer3.elements.service_options import ServiceOptions
    from contracts.pdu_csbk import service_options
    from contracts.pdu_common import compare_fields

    p = service_options(vc)
    b = p.as_bits()
    vc.prove("serialises_to_8_bits", len(b) == 8)
    q = ServiceOptions.from_bits(b)
    compare_fields(vc, p, q)
    vc.prove("reserialises_to_equal_bits", vc.eq(q.as_bits(), b))
    x = vc.bits(8, "x")
    vc.prove("any_8_bits_are_a_fixed_point", vc.eq(ServiceOptions.from_bits(x).as_bits(), x))


@contract("FragmentSequenceNumber.build_parse", "okdmr.dmrlib.etsi.layer2.elements.fragment_sequence_number:FragmentSequenceNumber.from_bits", ["C03", "C19"])
def fsn_roundtrip(vc):
    from okdmr.dmrlib.etsi.layer2.elements.fragment_sequence_number import FragmentSequenceNumber as F

    v = vc.uint(4, "v")
    p = F(v)
    b = p.as_bits()
    vc.prove("serialises_to_4_bits", len(b) == 4)
    vc.prove("value_read_back", vc.eq(F.from_bits(b).value, v))
    vc.prove("is_last_iff_single_fragment_or_last_flag", vc.iff(p.is_last(), vc.or_(vc.eq(v, 0), v >= 8)))


@contract("FullLinkControl.gps_bounded", "okdmr.dmrlib.etsi.layer2.pdu.full_link_control:FullLinkControl.from_bits", ["C03"], bounded=True,
          note="GPS Info longitude / latitude go through float scaling (360/2^25, 180/2^24): outside the engine's reach; native evaluation on raw words")
def gps_bounded(vc, edge):
    from bitarray.util import int2ba, ba2int
    from okdmr.dmrlib.etsi.layer2.pdu.full_link_control import FullLinkControl
    from okdmr.dmrlib.etsi.layer2.elements.flcos import FLCOs
    from okdmr.dmrlib.etsi.layer2.elements.feature_set_ids import FeatureSetIDs
    from okdmr.dmrlib.etsi.layer3.elements.position_error import PositionError

    if vc.mode != "native":
        return
    lon = vc.uint(25, "lon")
    lat = vc.uint(24, "lat")
    if edge:  # boundary words
        lon = [0, 1, (1 << 24) - 1, 1 << 24, (1 << 24) + 1, (1 << 25) - 1][lon % 6]
        lat = [0, 1, (1 << 23) - 1, 1 << 23, (1 << 23) + 1, (1 << 24) - 1][lat % 6]
    pe = vc.uint(3, "pe")
    bits = int2ba(0, length=2) + FLCOs.GPSInfo.as_bits() + int2ba(0, length=8) + int2ba(0, length=4) + int2ba(pe, length=3) + int2ba(lon, length=25) + int2ba(lat, length=24) + int2ba(0, length=24)
    p = FullLinkControl.from_bits(bits)
    s1 = p.as_bits()
    vc.prove("gps_raw_words_survive_decode_then_encode", s1 == bits)
    q = FullLinkControl.from_bits(s1)
    vc.prove("gps_coordinates_equal_after_round_trip", q.longitude == p.longitude and q.latitude == p.latitude and q.position_error is p.position_error)


gps_bounded.shapes = lambda tier: [dict(edge=True), dict(edge=False)]
gps_bounded.native_random = 4000


@contract("FullLinkControl.gps_info", "okdmr.dmrlib.etsi.layer2.pdu.full_link_control:FullLinkControl.from_bits", ["C03", "C19"],
          note="GPS Info full LC on ALL 2^25 x 2^24 raw coordinate words: the float scaling (raw * 360/2^25, raw * 180/2^24 and back) is followed exactly - "
               "the factors are literal dyadic rationals, so every float involved is (-1)^s * m * k / 2^e with a symbolic integer m and m k < 2^53, where IEEE-754 "
               "multiplication and division are exact (pyvc.values.SDyadic refuses anything else); the same text runs natively on real floats in the cross-check")
def gps_info(vc, crcbits):
    from bitarray.util import int2ba
    from okdmr.dmrlib.etsi.layer2.pdu.full_link_control import FullLinkControl
    from okdmr.dmrlib.etsi.layer2.elements.flcos import FLCOs

    lon, lat, pe = vc.bits(25, "lon"), vc.bits(24, "lat"), vc.bits(3, "pe")
    tail = vc.bits(crcbits, "crc")
    # (feature set id: the standard one; undefined ids fold to their range member, which FullLinkControl.build_parse covers)
    bits = vc.mkbits([0, 0]) + FLCOs.GPSInfo.as_bits() + vc.mkbits([0] * 8) + vc.mkbits([0, 0, 0, 0]) + pe + lon + lat + tail
    keep = bits.copy()
    p = FullLinkControl.from_bits(bits)
    s1 = p.as_bits()
    vc.prove("gps_raw_words_survive_decode_then_encode", vc.eq(s1[:72], keep[:72]))
    q = FullLinkControl.from_bits(s1)
    vc.prove("gps_coordinates_equal_after_round_trip", vc.and_(q.longitude == p.longitude, q.latitude == p.latitude, same(vc, q.position_error, p.position_error)))
    vc.prove("serialisation_is_a_fixed_point_of_decode_then_encode", vc.eq(q.as_bits(), s1))
    vc.prove("frame_argument_unchanged", vc.eq(bits, keep))


gps_info.shapes = lambda tier: [dict(crcbits=24), dict(crcbits=5)]


@contract("SyncPatterns.total", "okdmr.dmrlib.etsi.layer2.elements.sync_patterns:SyncPatterns.from_bits", ["C03", "C01", "C19"],
          note="the 48-bit SYNC enumeration (too wide for Element.enum_total's table): any 48 bits; the ten defined patterns map to themselves, anything else to EmbeddedSignalling")
def sync_total(vc):
    from okdmr.dmrlib.etsi.layer2.elements.sync_patterns import SyncPatterns
    from contracts.hytera import octs, be_int

    x = vc.bits(48, "x")
    keep = x.copy()
    m = SyncPatterns.from_bits(x)
    v = vc.from_bits(x.tolist())
    patterns = [p for p in SyncPatterns if p is not SyncPatterns.EmbeddedSignalling]
    defined = vc.or_(*[vc.eq(v, p.value) for p in patterns])
    vc.prove("never_maps_to_nothing", isinstance(m, SyncPatterns))
    vc.prove("a_defined_pattern_maps_to_itself", vc.implies(defined, m is not SyncPatterns.EmbeddedSignalling and vc.eq(m.value if m is not SyncPatterns.EmbeddedSignalling else 0, v)))
    vc.prove("anything_else_is_embedded_signalling", vc.implies(vc.not_(defined), m is SyncPatterns.EmbeddedSignalling))
    if m is not SyncPatterns.EmbeddedSignalling:
        vc.prove("a_defined_pattern_serialises_to_the_same_48_bits", vc.eq(m.as_bits(), keep))
    raw = x.tobytes()
    vc.prove("resolve_bytes_agrees_with_from_bits", SyncPatterns.resolve_bytes(raw) is m)
    vc.prove("frame_argument_unchanged", vc.eq(x, keep))
gps_info.budget_s = 150


@contract("Element.enum_history_bounded", "okdmr.dmrlib.etsi.layer2.elements:*", ["C19", "C03"], bounded=True,
          note="state kept ON enumeration members (process-wide singletons) is invisible to the symbolic model of the Enum call (which asks the class about every value at once): "
               "natively, for every pair (v1, v2) of values of an element enumeration (w <= 6: all pairs; wider: every v1 against the defined members and range boundaries), "
               "decoding v1 first must not change what decoding / re-encoding v2 gives in a fresh process (forked)")
def enum_history(vc, element, w):
    if vc.mode != "native":
        return
    import os
    import pickle

    cls = ELEMENTS[element]

    def view(v):
        from bitarray.util import int2ba

        try:
            m = cls.from_bits(int2ba(v, length=w)) if hasattr(cls, "from_bits") else cls(v)
        except Exception as e:
            return ("raises", type(e).__name__)
        try:
            return (m.name, m.as_bits().to01() if hasattr(m, "as_bits") else m.value)
        except Exception as e:
            return (m.name, "raises " + type(e).__name__)

    second = list(range(1 << w)) if w <= 6 else sorted({m.value for m in cls if m.value < (1 << w)} | {0, 1, (1 << w) - 1, (1 << (w - 1))})
    # fresh answers: computed in a forked child, so that this process has not asked the class anything yet
    r, wfd = os.pipe()
    pid = os.fork()
    if pid == 0:
        os.close(r)
        out = {}
        for v2 in second:
            r2, w2 = os.pipe()
            p2 = os.fork()
            if p2 == 0:
                os.write(w2, pickle.dumps(view(v2)))
                os._exit(0)
            os.close(w2)
            out[v2] = pickle.loads(os.read(r2, 65536))
            os.close(r2)
            os.waitpid(p2, 0)
        os.write(wfd, pickle.dumps(out))
        os._exit(0)
    os.close(wfd)
    buf = b""
    while True:
        ch = os.read(r, 1 << 20)
        if not ch:
            break
        buf += ch
    os.close(r)
    os.waitpid(pid, 0)
    fresh = pickle.loads(buf)
    bad = []
    for v1 in range(1 << w):
        view(v1)
        for v2 in second:
            got = view(v2)
            if got != fresh[v2]:
                bad.append(dict(first=v1, then=v2, got=got, fresh=fresh[v2]))
                break
        if bad:
            break
    vc.prove("decoding_one_value_does_not_change_what_another_decodes_to", not bad, note=bad[:1])


enum_history.shapes = lambda tier: [s for s in _enum_shapes(tier) if s["w"] <= 8]
enum_history.native_all = True
