"""C03 (rest): DataHeader, FullLinkControl, ShortLinkControl, PIHeader, Rate12/34/1 data blocks, UDP/IPv4 compressed header,
SlotType, EmbeddedSignalling - __init__ / as_bits / from_bits (+ from_bits_typed / convert / as_bytes / from_bytes)."""
from pyvc.contract import contract, PathEnd
from contracts.pdu_common import DOCUMENTED, compare_fields, enum_of, same, spread
from contracts.pdu_csbk import service_options
from okdmr.dmrlib.etsi.layer2.pdu.data_header import DataHeader
from okdmr.dmrlib.etsi.layer2.pdu.full_link_control import FullLinkControl
from okdmr.dmrlib.etsi.layer2.pdu.short_link_control import ShortLinkControl
from okdmr.dmrlib.etsi.layer2.pdu.pi_header import PIHeader
from okdmr.dmrlib.etsi.layer2.pdu.rate12_data import Rate12Data, Rate12DataTypes
from okdmr.dmrlib.etsi.layer2.pdu.rate34_data import Rate34Data, Rate34DataTypes
from okdmr.dmrlib.etsi.layer2.pdu.rate1_data import Rate1Data, Rate1DataTypes
from okdmr.dmrlib.etsi.layer2.pdu.slot_type import SlotType
from okdmr.dmrlib.etsi.layer2.pdu.embedded_signalling import EmbeddedSignalling
from okdmr.dmrlib.etsi.layer3.pdu.udp_ipv4_compressed_header import UDPIPv4CompressedHeader
from okdmr.dmrlib.etsi.layer2.elements.data_packet_formats import DataPacketFormats
from okdmr.dmrlib.etsi.layer2.elements.sap_identifier import SAPIdentifier
from okdmr.dmrlib.etsi.layer2.elements.full_message_flag import FullMessageFlag
from okdmr.dmrlib.etsi.layer2.elements.resynchronize_flag import ResynchronizeFlag
from okdmr.dmrlib.etsi.layer2.elements.defined_data_formats import DefinedDataFormats
from okdmr.dmrlib.etsi.layer2.elements.sarq import SARQ
from okdmr.dmrlib.etsi.layer2.elements.udt_format import UDTFormat
from okdmr.dmrlib.etsi.layer2.elements.supplementary_flag import SupplementaryFlag
from okdmr.dmrlib.etsi.layer2.elements.csbk_opcodes import CsbkOpcodes
from okdmr.dmrlib.etsi.layer2.elements.feature_set_ids import FeatureSetIDs
from okdmr.dmrlib.etsi.layer2.elements.flcos import FLCOs
from okdmr.dmrlib.etsi.layer2.elements.slcos import SLCOs
from okdmr.dmrlib.etsi.layer2.elements.data_types import DataTypes
from okdmr.dmrlib.etsi.layer2.elements.lcss import LCSS
from okdmr.dmrlib.etsi.layer3.elements.udt_option_flag import UDTOptionFlag
from okdmr.dmrlib.etsi.layer3.elements.activity_id import ActivityID
from okdmr.dmrlib.etsi.layer3.elements.talker_alias_data_format import TalkerAliasDataFormat

CRCSTUB = ["BitCrcRegister._process_bits"]

# ------------------------------------------------------------------------------------------------ data header
DH_KINDS = ("DataPacketConfirmed", "DataPacketUnconfirmed", "ResponsePacket", "ShortDataDefined", "UnifiedDataTransport")


def build_header(vc, kind):
    dpf = DataPacketFormats[kind]
    sap = enum_of(vc, SAPIdentifier, 4, "sap")
    common = dict(dpf=dpf, sap_identifier=sap, llid_destination=vc.uint(24, "dst"), llid_source=vc.uint(24, "src"))
    if kind == "DataPacketConfirmed":
        return DataHeader(is_group=vc.bit("g"), is_response_requested=vc.bit("a"), pad_octet_count=vc.uint(5, "poc"), full_message_flag=FullMessageFlag(vc.bit("f")),
                          blocks_to_follow=vc.uint(7, "btf"), resynchronize_flag=ResynchronizeFlag(vc.bit("s")), send_sequence_number=vc.uint(3, "ns"),
                          fragment_sequence_number=vc.uint(4, "fsn"), **common)
    if kind == "DataPacketUnconfirmed":
        return DataHeader(is_group=vc.bit("g"), is_response_requested=vc.bit("a"), pad_octet_count=vc.uint(5, "poc"), full_message_flag=FullMessageFlag(vc.bit("f")),
                          blocks_to_follow=vc.uint(7, "btf"), fragment_sequence_number=vc.uint(4, "fsn"), **common)
    if kind == "ResponsePacket":
        return DataHeader(is_response_requested=vc.bit("a"), full_message_flag=FullMessageFlag(vc.bit("f")), blocks_to_follow=vc.uint(7, "btf"),
                          response_class=vc.uint(2, "cls"), response_type=vc.uint(3, "typ"), response_status=vc.uint(3, "sts"), **common)
    if kind == "ShortDataDefined":
        return DataHeader(is_group=vc.bit("g"), is_response_requested=vc.bit("a"), appended_blocks=vc.uint(6, "ab"), defined_data_format=enum_of(vc, DefinedDataFormats, 6, "dd"),
                          sarq=SARQ(vc.bit("s")), full_message_flag=FullMessageFlag(vc.bit("f")), bit_padding=vc.bits(8, "pad"), **common)
    if kind == "UnifiedDataTransport":
        return DataHeader(is_group=vc.bit("g"), is_response_requested=vc.bit("a"), is_emergency=vc.bit("e"), udt_option_flag=UDTOptionFlag(vc.bit("o")),
                          udt_format=enum_of(vc, UDTFormat, 4, "uf"), pad_nibbles_count=vc.uint(5, "pn"), appended_blocks=vc.uint(2, "ab"),
                          supplementary_flag=SupplementaryFlag(vc.bit("sf")), udt_opcode=enum_of(vc, CsbkOpcodes, 6, "op"), **common)
    raise KeyError(kind)


@contract("DataHeader.build_parse", "okdmr.dmrlib.etsi.layer2.pdu.data_header:DataHeader.from_bits", ["C03", "C04", "C19"], stubs=CRCSTUB)
def header_build_parse(vc, kind):
    p = build_header(vc, kind)
    b = p.as_bits()
    vc.prove("serialises_to_96_bits", len(b) == 96)
    keep = b.copy()
    q = DataHeader.from_bits(b)
    compare_fields(vc, p, q)
    vc.prove("parsed_back_crc_ok", q.crc_ok)  # C04 (1)
    vc.prove("reserialises_to_equal_bits", vc.eq(q.as_bits(), keep))
    vc.prove("frame_argument_unchanged", vc.eq(b, keep))
    vc.prove("from_bytes_parses_the_same", same(vc, DataHeader.from_bytes(p.as_bytes()), q))


header_build_parse.shapes = lambda tier: [dict(kind=k) for k in DH_KINDS]
header_build_parse.cost = 30


@contract("DataHeader.from_bits.any_96_bits", "okdmr.dmrlib.etsi.layer2.pdu.data_header:DataHeader.from_bits", ["C03"], stubs=CRCSTUB)
def header_any_bits(vc, dpf):
    from bitarray.util import int2ba

    bits = vc.bits(96, "x")
    lit = int2ba(dpf, length=4)
    for i in range(4):
        bits[4 + i] = lit[i]
    try:
        p = DataHeader.from_bits(bits)
    except DOCUMENTED:
        vc.prove("undefined_or_not_implemented_raises_a_documented_error", True)
        return
    s1 = p.as_bits()
    vc.prove("serialises_to_96_bits", len(s1) == 96)
    q = DataHeader.from_bits(s1)
    vc.prove("serialisation_is_a_fixed_point_of_decode_then_encode", vc.eq(q.as_bits(), s1))


header_any_bits.shapes = lambda tier: [dict(dpf=d) for d in range(16)]
header_any_bits.cost = 30

# ------------------------------------------------------------------------------------------------ full link control
FLC_KINDS = ("GroupVoiceChannelUser", "UnitToUnitVoiceChannelUser", "TalkerAliasHeader", "TalkerAliasBlock1", "TalkerAliasBlock2", "TalkerAliasBlock3")


def build_flc(vc, kind, crcbits, fid=0):
    flco = FLCOs[kind]
    common = dict(protect_flag=vc.bit("pf"), flco=flco, fid=FeatureSetIDs(fid), crc=vc.bits(crcbits, "crc"))
    if kind == "GroupVoiceChannelUser":
        return FullLinkControl(service_options=service_options(vc), group_address=vc.uint(24, "ga"), source_address=vc.uint(24, "sa"), **common)
    if kind == "UnitToUnitVoiceChannelUser":
        return FullLinkControl(service_options=service_options(vc), target_address=vc.uint(24, "ta"), source_address=vc.uint(24, "sa"), **common)
    if kind == "TalkerAliasHeader":
        return FullLinkControl(talker_alias_data_format=enum_of(vc, TalkerAliasDataFormat, 2, "fmt"), talker_alias_data_length=vc.uint(5, "len"),
                               talker_alias_data_msb=vc.bit("msb"), talker_alias_data=vc.bytes_(6, "ta"), **common)
    return FullLinkControl(talker_alias_data=vc.bytes_(7, "ta"), **common)


@contract("FullLinkControl.build_parse", "okdmr.dmrlib.etsi.layer2.pdu.full_link_control:FullLinkControl.from_bits", ["C03", "C19"])
def flc_build_parse(vc, kind, crcbits, fid):
    p = build_flc(vc, kind, crcbits, fid)
    b = p.as_bits()
    vc.prove("serialises_to_fixed_length", len(b) == 72 + crcbits)
    keep = b.copy()
    q = FullLinkControl.from_bits(b)
    compare_fields(vc, p, q)
    vc.prove("reserialises_to_equal_bits", vc.eq(q.as_bits(), keep))
    vc.prove("frame_argument_unchanged", vc.eq(b, keep))
    if crcbits == 24:
        vc.prove("from_bytes_parses_the_same", same(vc, FullLinkControl.from_bytes(p.as_bytes()), q))


def _flc_shapes(tier):
    fids = [m.value for m in FeatureSetIDs]
    for k in FLC_KINDS:
        for c in (24, 5):
            for fid in (fids if tier == "thorough" else spread(fids, tier, 2)):
                yield dict(kind=k, crcbits=c, fid=fid)


flc_build_parse.shapes = _flc_shapes


@contract("FullLinkControl.from_bits.any_bits", "okdmr.dmrlib.etsi.layer2.pdu.full_link_control:FullLinkControl.from_bits", ["C03"],
          note="GPS Info (FLCO 8) goes through float scaling: out of reach, covered by the bounded contract FullLinkControl.gps_bounded")
def flc_any_bits(vc, flco, n):
    from bitarray.util import int2ba

    bits = vc.bits(n, "x")
    lit = int2ba(flco, length=6)
    for i in range(6):
        bits[2 + i] = lit[i]
    if flco == FLCOs.GPSInfo.value:
        raise PathEnd()
    try:
        p = FullLinkControl.from_bits(bits)
    except DOCUMENTED:
        vc.prove("undefined_or_not_implemented_raises_a_documented_error", True)
        return
    s1 = p.as_bits()
    # bit 1 of the first octet is reserved: as_bits writes 0 there; the statement asks for a fixed point of the SERIALISATION
    vc.prove("serialises_to_the_same_length", len(s1) == n)
    q = FullLinkControl.from_bits(s1)
    vc.prove("serialisation_is_a_fixed_point_of_decode_then_encode", vc.eq(q.as_bits(), s1))


flc_any_bits.shapes = lambda tier: [dict(flco=f, n=n) for f in range(64) for n in (96, 77)]

# ------------------------------------------------------------------------------------------------ short LC, PI header

@contract("ShortLinkControl.build_parse", "okdmr.dmrlib.etsi.layer2.pdu.short_link_control:ShortLinkControl.from_bits", ["C03", "C19"], stubs=CRCSTUB)
def slc_build_parse(vc, kind):
    if kind == "NullMessage":
        p = ShortLinkControl(slco=SLCOs.NullMessage)
    else:
        p = ShortLinkControl(slco=SLCOs.ActivityUpdate, ts1_activity_id=enum_of(vc, ActivityID, 4, "a1"), ts2_activity_id=enum_of(vc, ActivityID, 4, "a2"),
                             ts1_address=vc.bits(8, "h1"), ts2_address=vc.bits(8, "h2"))
    b = p.as_bits()
    vc.prove("serialises_to_36_bits", len(b) == 36)
    keep = b.copy()
    q = ShortLinkControl.from_bits(b)
    compare_fields(vc, p, q, skip=("crc_ok",))
    vc.prove("reserialises_to_equal_bits", vc.eq(q.as_bits(), keep))


slc_build_parse.shapes = lambda tier: [dict(kind="NullMessage"), dict(kind="ActivityUpdate")]


@contract("ShortLinkControl.from_bits.any_36_bits", "okdmr.dmrlib.etsi.layer2.pdu.short_link_control:ShortLinkControl.from_bits", ["C03"], stubs=CRCSTUB)
def slc_any_bits(vc, slco):
    from bitarray.util import int2ba

    bits = vc.bits(36, "x")
    lit = int2ba(slco, length=4)
    for i in range(4):
        bits[i] = lit[i]
    try:
        p = ShortLinkControl.from_bits(bits)
    except DOCUMENTED:
        vc.prove("undefined_or_not_implemented_raises_a_documented_error", True)
        return
    s1 = p.as_bits()
    vc.prove("serialises_to_36_bits", len(s1) == 36)
    q = ShortLinkControl.from_bits(s1)
    vc.prove("serialisation_is_a_fixed_point_of_decode_then_encode", vc.eq(q.as_bits(), s1))


slc_any_bits.shapes = lambda tier: [dict(slco=s) for s in range(16)]


@contract("PIHeader.build_parse", "okdmr.dmrlib.etsi.layer2.pdu.pi_header:PIHeader.from_bits", ["C03", "C04", "C19"], stubs=CRCSTUB)
def pi_build_parse(vc):
    p = PIHeader(data=vc.bytes_(10, "d"))
    b = p.as_bits()
    vc.prove("serialises_to_96_bits", len(b) == 96)
    keep = b.copy()
    q = PIHeader.from_bits(b)
    compare_fields(vc, p, q, skip=("crc_ok",))
    vc.prove("parsed_back_crc_ok", q.crc_ok)  # C04 (1)
    vc.prove("reserialises_to_equal_bits", vc.eq(q.as_bits(), keep))
    x = vc.bits(96, "x")
    r = PIHeader.from_bits(x)
    vc.prove("any_96_bits_decode_to_a_fixed_point", vc.eq(PIHeader.from_bits(r.as_bits()).as_bits(), r.as_bits()))

# ------------------------------------------------------------------------------------------------ rate 1/2, 3/4, 1 data blocks
RATES = {"Rate12": (Rate12Data, Rate12DataTypes, 96), "Rate34": (Rate34Data, Rate34DataTypes, 144), "Rate1": (Rate1Data, Rate1DataTypes, 192)}


@contract("RateData.build_parse", "okdmr.dmrlib.etsi.layer2.pdu.rate12_data:Rate12Data.from_bits_typed", ["C03", "C04", "C19"], stubs=CRCSTUB,
          note="the same contract text on Rate12Data / Rate34Data / Rate1Data (one shape per class and block type)")
def rate_build_parse(vc, rate, typ):
    cls, types, nbits = RATES[rate]
    t = types[typ]
    data = vc.bytes_(t.value, "d")
    kw = {}
    if "Confirmed" in typ and "Un" not in typ:
        kw["dbsn"] = vc.uint(7, "sn")
    if "Last" in typ:
        kw["crc32"] = vc.uint(32, "c32")
    p = cls(data=data, packet_type=t, **kw)
    b = p.as_bits()
    vc.prove("serialises_to_fixed_length", len(b) == nbits)
    keep = b.copy()
    q = cls.from_bits_typed(b, t)
    compare_fields(vc, p, q)
    if "Confirmed" in typ and "Un" not in typ:
        vc.prove("parsed_back_crc9_ok", q.crc9_ok)  # C04 (1)
    vc.prove("reserialises_to_equal_bits", vc.eq(q.as_bits(), keep))
    vc.prove("frame_argument_unchanged", vc.eq(b, keep))
    u = cls.from_bits(b)  # untyped view = unconfirmed full-length block, then convert() to the typed one
    vc.prove("untyped_view_keeps_all_bits", vc.eq(u.as_bits(), keep))
    vc.prove("convert_gives_the_typed_view", same(vc, u.convert(t), q))


rate_build_parse.shapes = lambda tier: [dict(rate=r, typ=t) for r in RATES for t in ("Unconfirmed", "Confirmed", "UnconfirmedLastBlock", "ConfirmedLastBlock")]
rate_build_parse.cost = 10


@contract("RateData.from_bits.any_bits", "okdmr.dmrlib.etsi.layer2.pdu.rate12_data:Rate12Data.from_bits_typed", ["C03"], stubs=CRCSTUB)
def rate_any_bits(vc, rate, typ):
    cls, types, nbits = RATES[rate]
    t = types[typ]
    x = vc.bits(nbits, "x")
    p = cls.from_bits_typed(x, t)
    s1 = p.as_bits()
    vc.prove("serialises_to_fixed_length", len(s1) == nbits)
    q = cls.from_bits_typed(s1, t)
    vc.prove("serialisation_is_a_fixed_point_of_decode_then_encode", vc.eq(q.as_bits(), s1))


rate_any_bits.shapes = lambda tier: [dict(rate=r, typ=t) for r in RATES for t in ("Undefined", "Unconfirmed", "Confirmed", "UnconfirmedLastBlock", "ConfirmedLastBlock")]
rate_any_bits.cost = 10

# ------------------------------------------------------------------------------------------------ UDP/IPv4 compressed header

@contract("UDPIPv4CompressedHeader.build_parse", "okdmr.dmrlib.etsi.layer3.pdu.udp_ipv4_compressed_header:UDPIPv4CompressedHeader.from_bits", ["C03", "C19"])
def udp_build_parse(vc, ext, ndata):
    """ext: which port numbers travel in extended headers: 'none' | 'src' | 'dst' | 'both' (port identifier 0 = in extended header)"""
    spid = vc.uint(7, "spid")
    dpid = vc.uint(7, "dpid")
    vc.assume(vc.iff(vc.eq(spid, 0), ext in ("src", "both")))
    vc.assume(vc.iff(vc.eq(dpid, 0), ext in ("dst", "both")))
    e1 = vc.uint(16, "e1") if ext != "none" else None
    e2 = vc.uint(16, "e2") if ext == "both" else None
    p = UDPIPv4CompressedHeader(ipv4_identification=vc.uint(16, "id"), source_ip_address_id=vc.uint(4, "said"), destination_ip_address_id=vc.uint(4, "daid"),
                                udp_source_port_id=spid, udp_destination_port_id=dpid, user_data=vc.bits(ndata, "ud"), extended_header_1=e1, extended_header_2=e2)
    b = p.as_bits()
    vc.prove("serialises_to_header_plus_data_length", len(b) == 40 + (16 if e1 is not None else 0) + (16 if e2 is not None else 0) + ndata)
    keep = b.copy()
    q = UDPIPv4CompressedHeader.from_bits(b)
    # an address identifier is carried as its 4-bit value; undefined values fold to the reserved member on both sides
    compare_fields(vc, p, q)
    vc.prove("reserialises_to_equal_bits", vc.eq(q.as_bits(), keep) if _ids_defined(vc, p) else True)
    vc.prove("frame_argument_unchanged", vc.eq(b, keep))
    if ndata % 8 == 0:  # the octet interface (whole octets only): the same PDU through as_bytes / from_bytes
        raw = p.as_bytes()
        vc.prove("octets_are_the_bits", vc.eq(raw, keep.tobytes()))
        r = UDPIPv4CompressedHeader.from_bytes(raw)
        vc.prove("octet_decoder_yields_equal_bits", vc.eq(r.as_bits(), keep))


def _ids_defined(vc, p):
    return True


udp_build_parse.shapes = lambda tier: [dict(ext=e, ndata=n) for e in ("none", "src", "dst", "both") for n in ((0, 8, 32) if tier == "quick" else (0, 1, 8, 15, 16, 32, 64))]


@contract("UDPIPv4CompressedHeader.from_bits.any_bits", "okdmr.dmrlib.etsi.layer3.pdu.udp_ipv4_compressed_header:UDPIPv4CompressedHeader.from_bits", ["C03"])
def udp_any_bits(vc, n):
    x = vc.bits(n, "x")
    try:
        p = UDPIPv4CompressedHeader.from_bits(x)
    except DOCUMENTED:
        vc.prove("too_short_or_undefined_raises_a_documented_error", True)
        return
    s1 = p.as_bits()
    q = UDPIPv4CompressedHeader.from_bits(s1)
    vc.prove("serialisation_is_a_fixed_point_of_decode_then_encode", vc.eq(q.as_bits(), s1))


udp_any_bits.shapes = lambda tier: [dict(n=n) for n in ((40, 48, 56, 72, 96) if tier == "quick" else (40, 41, 48, 55, 56, 64, 71, 72, 80, 96, 144))]

# ------------------------------------------------------------------------------------------------ slot type, EMB

@contract("SlotType.build_parse", "okdmr.dmrlib.etsi.layer2.pdu.slot_type:SlotType.from_bits", ["C03", "C04", "C01", "C19"])
def slot_build_parse(vc):
    p = SlotType(colour_code=vc.uint(4, "cc"), data_type=vc.uint(4, "dt"))
    b = p.as_bits()
    vc.prove("serialises_to_20_bits", len(b) == 20)
    q = SlotType.from_bits(b)
    compare_fields(vc, p, q)
    vc.prove("parsed_back_fec_parity_ok", q.fec_parity_ok)  # C04 (1)
    vc.prove("built_fec_parity_ok", p.fec_parity_ok)
    vc.prove("reserialises_to_equal_bits", vc.eq(q.as_bits(), b))


@contract("EmbeddedSignalling.build_parse", "okdmr.dmrlib.etsi.layer2.pdu.embedded_signalling:EmbeddedSignalling.from_bits", ["C03", "C04", "C01", "C19"])
def emb_build_parse(vc):
    p = EmbeddedSignalling(colour_code=vc.uint(4, "cc"), preemption_and_power_control_indicator=vc.bit("pi"), link_control_start_stop=vc.uint(2, "lcss"))
    b = p.as_bits()
    vc.prove("serialises_to_16_bits", len(b) == 16)
    q = EmbeddedSignalling.from_bits(b)
    compare_fields(vc, p, q)
    vc.prove("parsed_back_emb_parity_ok", q.emb_parity_ok)  # C04 (1)
    vc.prove("built_emb_parity_ok", p.emb_parity_ok)
    vc.prove("reserialises_to_equal_bits", vc.eq(q.as_bits(), b))
