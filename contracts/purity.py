"""C19: purity.  The frame clauses (argument unchanged) and the CRC register havoc live in the codec contracts tagged C19.
This file adds (a) the tripwire contract for wall-clock time / randomness and (b) the bounded, native history check:
random interleavings of public codec entry points, each result compared with the answer of a pristine interpreter state."""
import json
import os
import subprocess
import sys

from pyvc.contract import contract


@contract("purity.history", "okdmr.dmrlib:*", ["C19"], bounded=True,
          note="bounded stand-in for 'all interleavings of calls': seeded random histories over the catalogue in contracts/purity_catalogue.py; later inputs are partly derived from earlier inputs/outputs (slices), every call is re-asked from a pristine interpreter state (forked oracle)")
def history(vc, length):
    if vc.mode != "native":
        return
    import random
    from bitarray import bitarray
    from contracts import purity_catalogue as cat

    rnd = random.Random(vc.uint(32, "seed"))
    here = os.path.dirname(os.path.dirname(os.path.abspath(__file__)))
    repo = os.environ.get("PYVC_REPO", "/repo")
    oracle = subprocess.Popen([sys.executable, os.path.join(here, "tools", "fresh_oracle.py"), repo, here], stdin=subprocess.PIPE, stdout=subprocess.PIPE, text=True)
    pool_bits, pool_bytes = [], []
    names = sorted(cat.CATALOGUE)
    bad = []
    changed = []
    try:
        used = []
        own = {}  # entry point -> its earlier buffer arguments
        for step in range(length):
            # histories are 'sticky': an entry point used before is likely to be used again, on related input
            name = rnd.choice(used) if used and rnd.random() < 0.5 else rnd.choice(names)
            used.append(name)
            fn, spec = cat.CATALOGUE[name]
            args = []
            for kind, par in spec:
                if kind in ("bits", "bytes"):
                    n = rnd.choice(par)
                    pool = pool_bits if kind == "bits" else pool_bytes
                    mine = [x for x in own.get(name, []) if len(x) >= n and isinstance(x, bitarray) == (kind == "bits")]
                    cands = mine if mine and rnd.random() < 0.6 else [x for x in pool if len(x) >= n]
                    if cands and rnd.random() < 0.5:  # derived from an earlier input / output: a prefix of it
                        src = rnd.choice(cands)
                        a = src[:n]
                        a = bitarray(a) if kind == "bits" else bytes(a)
                    elif kind == "bits":
                        v = rnd.getrandbits(n) if rnd.random() < 0.8 else 0
                        a = bitarray([(v >> i) & 1 for i in range(n)])
                    else:
                        a = bytes(rnd.getrandbits(8) if rnd.random() < 0.85 else 0 for _ in range(n))
                    if kind == "bytes" and rnd.random() < 0.3:
                        a = bytearray(a)  # a caller's MUTABLE buffer: must come back unchanged as well
                    args.append(a)
                elif kind == "pick":
                    a = bytearray.fromhex(rnd.choice(par))
                    if a and rnd.random() < 0.15:
                        a[rnd.randrange(len(a))] ^= 1 << rnd.randrange(8)
                    args.append(bytes(a) if rnd.random() < 0.7 else a)
                elif kind == "int":
                    args.append(rnd.getrandbits(par))
                elif kind == "enum":
                    args.append(rnd.choice(list(par)))
                else:
                    args.append(par)
            before = cat.encode_args(args)
            res, after = cat.perform(name, args)
            if after != [cat.canon(a) for a in cat.decode_args(before)]:
                changed.append((step, name, before))
            args = [bytes(a) if isinstance(a, bytearray) else a for a in args]
            for a in args:
                if isinstance(a, (bitarray, bytes)):
                    own.setdefault(name, []).append(a)
                if isinstance(a, bitarray):
                    pool_bits.append(a)
                elif isinstance(a, bytes):
                    pool_bytes.append(a)
            if res.startswith("bits:"):
                pool_bits.append(bitarray(res[5:]))
            elif res.startswith("bytes:"):
                pool_bytes.append(bytes.fromhex(res[6:]))
            elif res.startswith("[") and "bits:" in res:  # (object, bits) pairs of the PDU entries
                tail = res.rsplit("bits:", 1)[1].rstrip("]")
                if set(tail) <= {"0", "1"}:
                    pool_bits.append(bitarray(tail))
            oracle.stdin.write(json.dumps(dict(name=name, args=before)) + "\n")
            oracle.stdin.flush()
            fresh = json.loads(oracle.stdout.readline())
            if fresh != res:
                bad.append(dict(step=step, call=name, args=before, in_history=res[:200], fresh=fresh[:200]))
                break
    finally:
        try:
            oracle.stdin.close()
            oracle.wait(timeout=10)
        except Exception:
            oracle.kill()
    vc.prove("result_equals_the_result_in_a_pristine_interpreter", not bad, note=bad[:1])
    vc.prove("argument_buffers_unchanged", not changed, note=changed[:1])


history.shapes = lambda tier: [dict(length=40), dict(length=120)] if tier == "quick" else [dict(length=40), dict(length=150), dict(length=400)]
history.native_random = 24
