"""C19 (and the property of each codec): two calls in one process.  For every codec contract listed here `pyvc.pair` registers
`<contract>.second_call`: both calls draw their own symbolic contents, the second call must satisfy its contract although the
first was made before it, and the results of the first must still satisfy theirs after the second (see pyvc/pair.py).
Functions under contract: those of the paired contracts (BlockCode generate / check, the CRC engines and front ends,
BPTC19696 encode / decode, Trellis34 encode / decode, ReedSolomon1294 generate / check, the VBPTC encoders, the layer-2 PDU
classes, voice bursts, the MBXML integer codecs and documents, Hytera IPSC / HDAP / HRNP / HSTRP, Motorola TMS / ARS)."""
from pyvc.contract import REGISTRY
from pyvc.pair import pair

# name -> how many shapes of the quick list are combined (ordered pairs: n^2 jobs)
DEFAULT = {
    "BlockCode.generate": 3, "BlockCode.check": 3,
    "BitCrcCalculator.calculate_checksum": 3, "CRC16.calculate": 3, "CRC8.calculate": 3, "CRC9.calculate": 3, "CRC9.calculate_from_parts": 4, "CRC32.calculate": 3,
    "BPTC19696.encode": 1, "BPTC19696.deinterleave_data_bits": 3, "BPTC19696.deinterleave_all_bits": 1,
    "Trellis34.encode": 2, "Trellis34.decode": 2,
    "ReedSolomon1294.generate": 1, "ReedSolomon1294.check": 1,
    "VBPTC12873.encode": 1, "VBPTC6828.encode": 1, "FiveBitChecksum.calculate": 2,
    "PIHeader.build_parse": 1, "RateData.build_parse": 3, "SlotType.build_parse": 1, "EmbeddedSignalling.build_parse": 1,
    "FullLinkControl.build_parse": 2, "ShortLinkControl.build_parse": 2, "UDPIPv4CompressedHeader.build_parse": 2, "CSBK.build_parse": 2,
    "FragmentSequenceNumber.build_parse": 1,
    "Burst.voice_sync": 2, "Burst.voice_emb": 1, "Burst.assemble_parse": 2,
    "MBXML.uintvar": 1, "MBXML.sintvar": 1, "MBXML.write_infotime": 1,
    "HDAP.as_bytes": 3, "HRNP.as_bytes": 2, "HSTRP.as_bytes": 3,
    "TextMessagingService.as_bytes": 2, "AutomaticRegistrationService.as_bytes": 2,
    "MBXML.from_bytes": 4, "MBXMLDocument.get_token": 3,
    "RateData.detects_corruption": 2, "DataHeader.detects_corruption": 1, "PIHeader.detects_corruption": 2, "ShortLinkControl.detects_corruption": 2,
}
for _n, _k in DEFAULT.items():
    if _n in REGISTRY:
        pair(REGISTRY[_n], pick=_k)

# a received word first decoded WITHOUT repair, then (possibly the same word) decoded with repair
if "BPTC19696.deinterleave_data_bits" in REGISTRY and "BPTC19696.deinterleave_data_bits.any_196_bits" in REGISTRY:
    pair(REGISTRY["BPTC19696.deinterleave_data_bits.any_196_bits"], REGISTRY["BPTC19696.deinterleave_data_bits"],
         shapes=lambda tier: [(dict(repair=False), dict(e=e, repair=True)) for e in ((), (5,), (91,), (7, 36))],
         properties=["C02", "C19"], stubs=[])  # (repair is off in the first call: its any-word repair stub is not needed)
# the same payload under two data-type masks
if "CRC16.calculate" in REGISTRY:
    pair(REGISTRY["CRC16.calculate"], name="CRC16.calculate.second_call_other_mask",
         shapes=lambda tier: [(dict(nbytes=n, mask=a), dict(nbytes=n, mask=b)) for n in (10,) for a in ("CSBK", "DataHeader", "PiHeader") for b in ("CSBK", "DataHeader", "PiHeader") if a != b])


def same_kind_pairs(name, keys, limit=40):
    """ordered pairs of shapes of one contract that agree on the given keys (the same kind of message twice, in two sizes /
    option sets): what a shared default argument or a per-kind cache would mix up"""
    def shapes(tier):
        groups = {}
        for s in REGISTRY[name].shapes("quick"):
            groups.setdefault(tuple(str(s.get(k)) for k in keys), []).append(s)
        out = []
        for g in groups.values():
            if len(g) >= 2:
                pick = [g[0], g[-1]] if len(g) > 2 else g
                out += [(x, y) for x in pick for y in pick if x is not y]
        return out[:limit]

    return shapes


for _n, _keys in (("HDAP.as_bytes", ("family", "kind")), ("HSTRP.as_bytes", ("kind",)), ("TextMessagingService.as_bytes", ("kind",)), ("AutomaticRegistrationService.as_bytes", ("kind",)),
                  ("MBXML.from_bytes", ("doc",)), ("FullLinkControl.build_parse", ("kind",)), ("DataHeader.build_parse", ("kind",))):
    if _n in REGISTRY and same_kind_pairs(_n, _keys)("quick"):
        pair(REGISTRY[_n], name=_n + ".second_call_same_kind", shapes=same_kind_pairs(_n, _keys))

if "DataHeader.build_parse" in REGISTRY:
    pair(REGISTRY["DataHeader.build_parse"], shapes=lambda tier: [(dict(kind=a), dict(kind=b)) for a in ("DataPacketUnconfirmed", "ResponsePacket") for b in ("DataPacketUnconfirmed", "ResponsePacket")])
if "HyteraIPSC.frame" in REGISTRY:
    # (the CSBK / data header frames fork 30-fold each; frames with few paths are combined)
    _ipsc = [dict(slot="VoiceFrameA", timeslot="Timeslot_1", call="GroupCall"), dict(slot="VoiceFrameB", timeslot="Timeslot_2", call="PrivateCall"),
             dict(slot="Rate12Data", timeslot="Timeslot_1", call="GroupCall", err=200), dict(slot="Wakeup", timeslot="Timeslot_1", call="WakeupCall_2")]
    pair(REGISTRY["HyteraIPSC.frame"], shapes=lambda tier: [(a, b) for a in _ipsc for b in _ipsc if a is not b or a["slot"] == "VoiceFrameB"])

# the byte-oriented entry points once more with caller-owned MUTABLE buffers (bytearray): same clauses, buffers unchanged
from pyvc.pair import mutable

for _n, _k in (("CRC16.calculate", 3), ("CRC32.calculate", 3), ("CRC9.calculate_from_parts", 3), ("ReedSolomon1294.generate", 1), ("ReedSolomon1294.check", 1),
               ("HSTRP.from_bytes.over_approximation", 6), ("MBXML.uintvar", 2), ("HRNP.as_bytes", 3), ("HSTRP.as_bytes", 5), ("HDAP.as_bytes", 6),
               ("TextMessagingService.as_bytes", 4), ("MBXML.from_bytes", 5)):
    if _n in REGISTRY:
        if _n in ("HSTRP.as_bytes", "HDAP.as_bytes", "HRNP.as_bytes"):
            # (the TMP text argument is `str | bytes` by the constructor's own type test: a bytearray is outside its domain)
            _ss = [x for x in REGISTRY[_n].shapes("quick") if "TMP" not in repr(x)]
            _ss = _ss[:: max(1, len(_ss) // _k)][:_k + 2]
            mutable(REGISTRY[_n], shapes=lambda tier, _ss=_ss: list(_ss))
        else:
            mutable(REGISTRY[_n], pick=_k)


def _by_doc(name, docs, per=1):
    """shapes of an MBXML contract, `per` of each of the given document kinds (single-document shapes)"""
    out = []
    for d in docs:
        got = [s for s in REGISTRY[name].shapes("quick") if (s.get("doc") == d or (len(s.get("docs", [])) == 1 and s["docs"][0]["doc"] == d))]
        out += got[:per]
    return out


# documents of DIFFERENT directions one after the other (request / report / answer): what a token table edited while one
# document is handled would change for the next
_DOCS = ("LRRP_ImmediateLocationRequest", "LRRP_ImmediateLocationReport", "LRRP_TriggeredLocationAnswer", "LRRP_UnsolicitedLocationReport", "LRRP_TriggeredLocationRequest_NCDT", "LRRP_ImmediateLocationReport_NCDT")
for _n in ("MBXMLDocument.get_token", "MBXML.from_bytes"):
    if _n in REGISTRY:
        _ss = _by_doc(_n, _DOCS, per=2)
        pair(REGISTRY[_n], name=_n + ".second_call_other_direction", shapes=lambda tier, _ss=_ss: [(a, b) for a in _ss for b in _ss if a is not b][:80])
