"""catalogue of public codec entry points for the C19 history check (native, bounded): name -> (callable, argument spec).
Argument spec items: ("bits", [lengths]) | ("bytes", [lengths]) | ("int", nbits) | ("enum", EnumClass) | ("const", value) |
("pick", [hex strings]): one of these octet strings, now and then with one octet changed"""
import enum
from bitarray import bitarray

from okdmr.dmrlib.etsi.crc.crc16 import CRC16
from okdmr.dmrlib.etsi.crc.crc8 import CRC8
from okdmr.dmrlib.etsi.crc.crc9 import CRC9
from okdmr.dmrlib.etsi.crc.crc32 import CRC32
from okdmr.dmrlib.etsi.layer2.elements.crc_masks import CrcMasks
from okdmr.dmrlib.etsi.fec.five_bit_checksum import FiveBitChecksum
from okdmr.dmrlib.etsi.fec.hamming_7_4_3 import Hamming743
from okdmr.dmrlib.etsi.fec.hamming_13_9_3 import Hamming1393
from okdmr.dmrlib.etsi.fec.hamming_15_11_3 import Hamming15113
from okdmr.dmrlib.etsi.fec.hamming_16_11_4 import Hamming16114
from okdmr.dmrlib.etsi.fec.hamming_17_12_3 import Hamming17123
from okdmr.dmrlib.etsi.fec.golay_20_8_7 import Golay2087
from okdmr.dmrlib.etsi.fec.quadratic_residue_16_7_6 import QuadraticResidue1676
from okdmr.dmrlib.etsi.fec.bptc_196_96 import BPTC19696
from okdmr.dmrlib.etsi.fec.vbptc_128_72 import VBPTC12873
from okdmr.dmrlib.etsi.fec.vbptc_68_28 import VBPTC6828
from okdmr.dmrlib.etsi.fec.vbptc_32_11 import VBPTC3211
from okdmr.dmrlib.etsi.fec.trellis import Trellis34
from okdmr.dmrlib.etsi.fec.reed_solomon_12_9_4 import ReedSolomon1294
from okdmr.dmrlib.etsi.layer2.pdu.csbk import CSBK
from okdmr.dmrlib.etsi.layer2.pdu.data_header import DataHeader
from okdmr.dmrlib.etsi.layer2.pdu.full_link_control import FullLinkControl
from okdmr.dmrlib.etsi.layer2.pdu.short_link_control import ShortLinkControl
from okdmr.dmrlib.etsi.layer2.pdu.pi_header import PIHeader
from okdmr.dmrlib.etsi.layer2.pdu.rate12_data import Rate12Data
from okdmr.dmrlib.etsi.layer2.pdu.rate34_data import Rate34Data
from okdmr.dmrlib.etsi.layer2.pdu.rate1_data import Rate1Data
from okdmr.dmrlib.etsi.layer2.pdu.slot_type import SlotType
from okdmr.dmrlib.etsi.layer2.pdu.embedded_signalling import EmbeddedSignalling
from okdmr.dmrlib.etsi.layer3.pdu.udp_ipv4_compressed_header import UDPIPv4CompressedHeader
from okdmr.dmrlib.etsi.layer2.burst import Burst
from okdmr.dmrlib.etsi.layer2.elements.burst_types import BurstTypes
from okdmr.dmrlib.etsi.layer2.elements.csbk_opcodes import CsbkOpcodes
from okdmr.dmrlib.utils.bits_bytes import byteswap_bytes, bytes_to_bits, bits_to_bytes


def canon(x, depth=0):
    """canonical, comparable text of a result"""
    if isinstance(x, bitarray):
        return "bits:" + x.to01()
    if isinstance(x, (bytes, bytearray)):
        return "bytes:" + bytes(x).hex()
    if isinstance(x, enum.Enum):
        return "enum:" + type(x).__name__ + "." + x.name
    if isinstance(x, (bool, int, float, str)) or x is None:
        return repr(x)
    if isinstance(x, (list, tuple)):
        return "[" + ",".join(canon(y, depth + 1) for y in x) + "]"
    if hasattr(x, "tolist") and not hasattr(x, "__dict__"):
        return "arr:" + repr(x.tolist())
    if hasattr(x, "__dict__") and depth < 3:
        skip = ("stream_no", "hytera_ipsc")
        return type(x).__name__ + "{" + ",".join(k + "=" + canon(v, depth + 1) for k, v in sorted(vars(x).items()) if k not in skip and not k.startswith("_")) + "}"
    return type(x).__name__


def _pdu(cls, method="from_bits"):
    def f(b):
        p = getattr(cls, method)(b)
        return (p, p.as_bits())
    return f


def _hc(cls):  # in-place repair is the documented exception: work on a private copy
    def f(b):
        return cls.check_and_correct(b.copy())
    return f


B, Y = "bits", "bytes"
CATALOGUE = {
    "CRC16.calculate": (lambda d, m: CRC16.calculate(d, m), [(Y, [0, 1, 10, 12]), ("enum", CrcMasks)]),
    "CRC16.check": (lambda d, v, m: CRC16.check(d, v, m), [(Y, [0, 10]), ("int", 16), ("enum", CrcMasks)]),
    "CRC8.calculate": (CRC8.calculate, [(B, [0, 28, 36])]),
    "CRC9.calculate": (lambda d: CRC9.calculate(d, CrcMasks.Rate34DataContinuation), [(B, [0, 9, 87])]),
    "CRC9.calculate_from_parts": (lambda d, sn: CRC9.calculate_from_parts(d, sn, CrcMasks.Rate12DataContinuation), [(Y, [6, 10]), ("int", 7)]),
    "CRC32.calculate": (CRC32.calculate, [(Y, [0, 1, 4, 12, 24])]),
    "FiveBitChecksum.calculate": (FiveBitChecksum.calculate, [(Y, [9])]),
    "Hamming743.generate": (Hamming743.generate, [(B, [4])]),
    "Hamming1393.check": (Hamming1393.check, [(B, [13])]),
    "Hamming15113.generate": (Hamming15113.generate, [(B, [11])]),
    "Hamming15113.check_and_correct(copy)": (_hc(Hamming15113), [(B, [15])]),
    "Hamming16114.check_and_correct(copy)": (_hc(Hamming16114), [(B, [16])]),
    "Hamming17123.generate": (Hamming17123.generate, [(B, [12])]),
    "Golay2087.generate": (Golay2087.generate, [(B, [8])]),
    "Golay2087.check": (Golay2087.check, [(B, [20])]),
    "QuadraticResidue1676.generate": (QuadraticResidue1676.generate, [(B, [7])]),
    "QuadraticResidue1676.check": (QuadraticResidue1676.check, [(B, [16])]),
    "BPTC19696.encode": (BPTC19696.encode, [(B, [96])]),
    "BPTC19696.deinterleave_data_bits": (BPTC19696.deinterleave_data_bits, [(B, [196])]),
    "BPTC19696.deinterleave_all_bits": (BPTC19696.deinterleave_all_bits, [(B, [196])]),
    "VBPTC12873.encode": (VBPTC12873.encode, [(B, [72, 77, 128])]),
    "VBPTC12873.deinterleave_data_bits": (VBPTC12873.deinterleave_data_bits, [(B, [128])]),
    "VBPTC12873.deinterleave_all_bits": (VBPTC12873.deinterleave_all_bits, [(B, [128])]),
    "VBPTC6828.encode": (VBPTC6828.encode, [(B, [28, 36, 68])]),
    "VBPTC6828.deinterleave_data_bits": (VBPTC6828.deinterleave_data_bits, [(B, [68])]),
    "VBPTC6828.deinterleave_all_bits": (VBPTC6828.deinterleave_all_bits, [(B, [68])]),
    "VBPTC3211.encode": (VBPTC3211.encode, [(B, [11, 32])]),
    "VBPTC3211.deinterleave_data_bits": (VBPTC3211.deinterleave_data_bits, [(B, [32])]),
    "Trellis34.encode": (Trellis34.encode, [(B, [144])]),
    "Trellis34.encode(bytes)": (Trellis34.encode, [(Y, [18])]),
    "Trellis34.decode": (Trellis34.decode, [(B, [196])]),
    "ReedSolomon1294.generate": (ReedSolomon1294.generate, [(Y, [9]), (Y, [3])]),
    "ReedSolomon1294.check": (ReedSolomon1294.check, [(Y, [12]), (Y, [3])]),
    "CSBK.from_bits": (_pdu(CSBK), [(B, [96])]),
    "CSBK(preamble, defaults)": (lambda n: CSBK(csbko=CsbkOpcodes.PreambleCSBK, blocks_to_follow=n).as_bits(), [("int", 8)]),
    "DataHeader.from_bits": (_pdu(DataHeader), [(B, [96])]),
    "FullLinkControl.from_bits": (_pdu(FullLinkControl), [(B, [96, 77])]),
    "ShortLinkControl.from_bits": (_pdu(ShortLinkControl), [(B, [36])]),
    "PIHeader.from_bits": (_pdu(PIHeader), [(B, [96])]),
    "Rate12Data.from_bits": (_pdu(Rate12Data), [(B, [96])]),
    "Rate34Data.from_bits": (_pdu(Rate34Data), [(B, [144])]),
    "Rate1Data.from_bits": (_pdu(Rate1Data), [(B, [192])]),
    "SlotType.from_bits": (_pdu(SlotType), [(B, [20])]),
    "EmbeddedSignalling.from_bits": (_pdu(EmbeddedSignalling), [(B, [16])]),
    "UDPIPv4CompressedHeader.from_bits": (_pdu(UDPIPv4CompressedHeader), [(B, [40, 56, 72, 96])]),
    "Burst.from_bytes": (lambda d: (lambda b: (b, b.as_bytes()))(Burst.from_bytes(d)), [(Y, [33])]),
    "Burst.from_bytes(vocoder)": (lambda d: (lambda b: (b, b.as_bytes()))(Burst.from_bytes(d, BurstTypes.Vocoder)), [(Y, [33])]),
    "Burst(defaults)": (lambda: Burst().as_bytes(), []),
    "byteswap_bytes": (byteswap_bytes, [(Y, [0, 1, 2, 5, 12])]),
    "bytes_to_bits": (bytes_to_bits, [(Y, [0, 3])]),
}


# ---- Hytera / Motorola protocol PDUs: well-formed frames (literal, produced once by the library's own builders and pasted
# here) - a random octet string almost never parses, so the histories draw from these and from one-octet mutations of them
from okdmr.dmrlib.hytera.pdu.hdap import HDAP
from okdmr.dmrlib.hytera.pdu.hrnp import HRNP
from okdmr.dmrlib.hytera.pdu.hstrp import HSTRP
from okdmr.dmrlib.hytera.pdu.radio_control_protocol import RadioControlProtocol, RCPOpcode
from okdmr.dmrlib.hytera.pdu.location_protocol import LocationProtocol, LocationProtocolSpecificService
from okdmr.dmrlib.hytera.pdu.radio_ip import RadioIP
from okdmr.dmrlib.motorola.text_messaging_service import TextMessagingService
from okdmr.dmrlib.motorola.automatic_registration_service import AutomaticRegistrationService
from okdmr.dmrlib.motorola.mbxml import MBXML
from okdmr.dmrlib.motorola.lrrp import LRRP

HDAP_FRAMES = ['02c71005000205010e013f03', '02c7100300010b014b03', '02c710070003050001010b003f03', '02c7100100005a03', '0241080500013b3823004d03', '02c8b003000b0102a903', '0234120300010203e303',
               '0252080e0000010000000200000001034f4b31f803', '11000300040a000064bd03', '91008000090a000064000000012c0e03', '88a00100080000004d0a0000092903',
               '08a00200320000004e0a0000090000413031303230333036303532344e343830372e303338304530313133312e30303030302e35303834f303',
               '08a00200320000004f0a00000900004130313032303330363031383053303030312e353030305730303030302e3030303131322e0000009803',
               '0980a10016000000050a0000020a000001680065006c006c006f00cb03', '0940b100140002000000060a0000020a000001277d25600102e203', '0940be00110001000000070a0000020a000001a0b009ab03',
               '0900a2000d000000050a0000020a000001006703']
HRNP_FRAMES = ['7e040000201000010018fcfe02c71005000205010e013f03', '7e040000201000020016f90302c7100300010b014b03', '7e04000020100003001afef802c710070003050001010b003f03',
               '7e040000201000040014f50702c7100100005a03', '7e040000201000050018ac4b0241080500013b3823004d03', '7e04000020100006001604f302c8b003000b0102a903',
               '7e040000201000070016688f0234120300010203e303', '7e040000201000080021cf1b0252080e0000010000000200000001034f4b31f803', '7e0400fe20100000000c60e1', '7e0400fa20100009000c60dc']
HSTRP_FRAMES = ['32420020000183040001869f04010102c71005000205010e013f03', '32420020000283040001869f04010102c7100300010b014b03', '32420020000383040001869f04010102c710070003050001010b003f03',
                '32420020000483040001869f04010102c7100100005a03', '32420020000583040001869f0401010241080500013b3823004d03', '32420020000683040001869f04010102c8b003000b0102a903', '324200040000',
                '3242000000030241080500013b3823004d03']
TMS_FRAMES = ['000aa0026162812468006900', '00039f0000', '000490017803', '0005e000056f6b']
ARS_FRAMES = ['000c802007323330383135350000', '001205013106c5be6c75c5a5056865736c6f1080', '000104', '0003011080', '00028f03']
MBXML_FRAMES = ['050822042468ace05162', '070c22042468ace0390503515355', '110722042468ace038', '040e05054150434f22042468ace05362', '070522011137c801', '07042201113807042201223 8'.replace(' ', ''),
                '1407220111515762150a2201113465006b01', '0608036162632201113806050122012238']


def _bytes_pdu(parse):
    def f(d):
        p = parse(d)
        return (p, p.as_bytes() if p is not None else None)
    return f


def _mbxml(d):
    docs = MBXML.from_bytes(d)
    return (docs, b"".join(MBXML.as_bytes(x) for x in docs))


def _lrrp_assembled(code):
    from okdmr.dmrlib.motorola.mbxml import MBXMLDocumentIdentifier as DI

    d = LRRP(document_id=DI.LRRP_ImmediateLocationReport_NCDT)
    d.parts.append(d.get_token(name=0x22, value=b"\x24\x68", attributes={}, is_request=False))
    d.parts.append(d.get_token(name=0x39, value=b"QSU", attributes={"result-code": code}, is_request=False))
    return MBXML.as_bytes(d)


CATALOGUE.update({
    "HDAP.from_bytes": (_bytes_pdu(HDAP.from_bytes), [("pick", HDAP_FRAMES)]),
    "HRNP.from_bytes": (_bytes_pdu(HRNP.from_bytes), [("pick", HRNP_FRAMES)]),
    "HSTRP.from_bytes": (_bytes_pdu(HSTRP.from_bytes), [("pick", HSTRP_FRAMES)]),
    "RadioControlProtocol(StatusChangeNotificationRequest, defaults)": (lambda: RadioControlProtocol(opcode=RCPOpcode.StatusChangeNotificationRequest).as_bytes(), []),
    "RadioControlProtocol(CallRequest, defaults)": (lambda t: RadioControlProtocol(opcode=RCPOpcode.CallRequest, target_id=t).as_bytes(), [("int", 24)]),
    "LocationProtocol(StandardRequest, defaults)": (lambda r: LocationProtocol(opcode=LocationProtocolSpecificService.StandardRequest, request_id=r, radio_ip=RadioIP(7)).as_bytes(), [("int", 32)]),
    "TextMessagingService.from_bytes": (_bytes_pdu(TextMessagingService.from_bytes), [("pick", TMS_FRAMES)]),
    "AutomaticRegistrationService.from_bytes": (_bytes_pdu(AutomaticRegistrationService.from_bytes), [("pick", ARS_FRAMES)]),
    "MBXML.from_bytes": (_mbxml, [("pick", MBXML_FRAMES)]),
    "LRRP.get_token + MBXML.as_bytes": (_lrrp_assembled, [("int", 7)]),
})


def extend(name, fn, spec):
    CATALOGUE[name] = (fn, spec)


def encode_args(args):
    out = []
    for a in args:
        if isinstance(a, bitarray):
            out.append({"bits": a.to01()})
        elif isinstance(a, bytearray):
            out.append({"hex": bytes(a).hex(), "mutable": True})
        elif isinstance(a, bytes):
            out.append({"hex": a.hex()})
        elif isinstance(a, enum.Enum):
            out.append({"enum": [type(a).__module__, type(a).__name__, a.name]})
        else:
            out.append({"v": a})
    return out


def decode_args(enc):
    import importlib

    out = []
    for d in enc:
        if "bits" in d:
            out.append(bitarray(d["bits"]))
        elif "hex" in d:
            out.append(bytearray.fromhex(d["hex"]) if d.get("mutable") else bytes.fromhex(d["hex"]))
        elif "enum" in d:
            out.append(getattr(importlib.import_module(d["enum"][0]), d["enum"][1])[d["enum"][2]])
        else:
            out.append(d["v"])
    return out


def perform(name, args):
    """-> (canonical result or exception, canonical arguments after the call)"""
    fn = CATALOGUE[name][0]
    try:
        r = canon(fn(*args))
    except Exception as e:
        r = "raises:" + type(e).__name__
    return r, [canon(a) for a in args]
