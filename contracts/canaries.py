"""canaries: deliberately wrong clauses, one per engine component; each MUST be refuted and the counter-model MUST
replay on the real code, otherwise the run fails with exit 3 (vacuity / soundness guard, run with every property)"""
from pyvc.contract import contract
from okdmr.dmrlib.etsi.fec.hamming_15_11_3 import Hamming15113


@contract("canary.gf2.hamming_parity_bit_flipped", "okdmr.dmrlib.etsi.fec.hamming_common:HammingCommon.generate", ["*"], canary=True)
def canary_gf2(vc):
    m = vc.bits(11, "m")
    cw = Hamming15113.generate(m).tolist()
    # wrong on purpose: claims parity bit 11 is the XOR of the first two message bits only
    vc.prove("wrong_parity_formula", vc.eq(cw[11], m[0] ^ m[1]))


@contract("canary.fork.check_rejects_everything", "okdmr.dmrlib.etsi.fec.hamming_common:HammingCommon.check", ["*"], canary=True)
def canary_fork(vc):
    w = vc.bits(15, "w")
    # wrong on purpose: no 15-bit word passes the check
    vc.prove("nothing_is_a_codeword", vc.not_(Hamming15113.check(w)))
