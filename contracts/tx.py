"""C07: a generated data transmission is received back.  Functions under contract: TransmissionGenerator.generate_data_bursts /
generate_full_data_transmission / generate_csbk_preambles / generate_data_header_burst, Transmission.process_packet /
process_data / process_csbk / process_data_header / is_last_block / end_data_transmission / new_transmission, the observer
fan-out; inlined: burst codec (C01), PDU codecs (C03); stubs: CRC bit-serial tail (C05), trellis decoder loop (C10)."""
from pyvc.contract import contract, PathEnd
from contracts import trellis as trellis_contracts
from spec import crc as S
from okdmr.dmrlib.transmission.transmission_generator import TransmissionGenerator as TG
from okdmr.dmrlib.transmission.transmission import Transmission
from okdmr.dmrlib.transmission.transmission_observer_interface import TransmissionObserverInterface
from okdmr.dmrlib.transmission.transmission_types import TransmissionTypes
from okdmr.dmrlib.etsi.layer2.burst import Burst
from okdmr.dmrlib.etsi.layer2.pdu.rate12_data import Rate12Data
from okdmr.dmrlib.etsi.layer2.pdu.rate34_data import Rate34Data
from okdmr.dmrlib.etsi.layer2.pdu.rate1_data import Rate1Data
from okdmr.dmrlib.etsi.layer2.pdu.data_header import DataHeader
from okdmr.dmrlib.etsi.layer2.pdu.csbk import CSBK
from okdmr.dmrlib.etsi.layer2.elements.csbk_opcodes import CsbkOpcodes
from okdmr.dmrlib.etsi.layer2.elements.data_packet_formats import DataPacketFormats
from okdmr.dmrlib.etsi.layer2.elements.data_types import DataTypes
from okdmr.dmrlib.etsi.layer2.elements.sap_identifier import SAPIdentifier
from okdmr.dmrlib.etsi.layer2.elements.full_message_flag import FullMessageFlag
from okdmr.dmrlib.etsi.layer2.elements.resynchronize_flag import ResynchronizeFlag
from okdmr.dmrlib.etsi.fec.trellis import Trellis34

RATE = {"Rate12": (Rate12Data, {True: (10, 6), False: (12, 8)}), "Rate34": (Rate34Data, {True: (16, 12), False: (18, 14)}), "Rate1": (Rate1Data, {True: (22, 18), False: (24, 20)})}
# ETSI TS 102 361-1 table 8.1 "octets per data block": (per block, per last block) for confirmed / unconfirmed


class Obs(TransmissionObserverInterface):
    def __init__(self):
        self.ev = []

    def transmission_started(self, transmission_type):
        self.ev.append(("start", transmission_type))

    def data_transmission_ended(self, transmission_header, blocks):
        self.ev.append(("data_end", transmission_header, list(blocks)))

    def voice_transmission_ended(self, voice_header, blocks):
        self.ev.append(("voice_end", voice_header, list(blocks)))


def geometry(L, per, last):
    """independent fragmentation arithmetic: the smallest block count whose capacity holds L octets, and the padding"""
    nb = 1
    while (nb - 1) * per + last < L:
        nb += 1
    return nb, (nb - 1) * per + last - L


@contract("Transmission.generated_is_received", "okdmr.dmrlib.transmission.transmission_generator:TransmissionGenerator.generate_full_data_transmission", ["C07"],
          stubs=["BitCrcRegister._process_bits", "Trellis34.points_to_tribits", "BPTC19696.encode", "BPTC19696.deinterleave_data_bits"])
def generated_is_received(vc, rate, L, confirmed, preambles, symbolic):
    cls, table = RATE[rate]
    per, last = table[confirmed]
    nb, pad = geometry(L, per, last)
    if nb > 127 or pad > 31:  # not representable in the header's 7-bit blocks-to-follow / 5-bit pad octet count
        raise PathEnd()
    if symbolic or vc.mode == "native":
        payload = vc.bytes_(L, "p")
    else:
        payload = bytes((7 * i + 3) & 0xFF for i in range(L))  # long payloads: literal contents (block arithmetic is what varies)
    cc = vc.uint(4, "cc")
    hdr = DataHeader(dpf=DataPacketFormats.DataPacketConfirmed if confirmed else DataPacketFormats.DataPacketUnconfirmed,
                     is_response_requested=confirmed, pad_octet_count=pad, sap_identifier=SAPIdentifier.ShortData,
                     llid_destination=vc.uint(24, "dst"), llid_source=vc.uint(24, "src"), full_message_flag=FullMessageFlag(1),
                     blocks_to_follow=nb, resynchronize_flag=ResynchronizeFlag(0), send_sequence_number=0, fragment_sequence_number=8 if confirmed else 0)
    bursts = TG.generate_full_data_transmission(cls, payload, hdr, csbk_count=preambles, colour_code=cc)
    vc.prove("burst_count_is_preambles_plus_header_plus_blocks", len(bursts) == preambles + 1 + nb)
    # preamble count-down: preamble k (0-based) is followed by (preambles - 1 - k) more preambles, the header and nb blocks
    for k in range(min(preambles, len(bursts))):
        pre = bursts[k].data
        vc.prove("preamble_is_a_preamble_csbk", isinstance(pre, CSBK) and pre.csbko == CsbkOpcodes.PreambleCSBK)
        vc.prove("preamble_counts_down_to_the_bursts_that_follow", vc.eq(pre.blocks_to_follow, (preambles - 1 - k) + 1 + nb))
    o = Obs()
    tx = Transmission(o)
    if cls is Rate34Data:
        trellis_contracts.GHOST["queue"] = []
        for b in bursts:
            if b.data_type == DataTypes.Rate34Data:
                blk = b.data.as_bits()
                t = Trellis34.bits_to_tribits(blk)
                trellis_contracts.GHOST["queue"].append(dict(vc=vc, trib=t, points=Trellis34.tribits_to_points(t)))
    k = 0
    for b in bursts:
        raw = b.as_bytes()
        rx = Burst.from_bytes(raw)
        if k < preambles:
            vc.prove("received_preamble_counts_down", isinstance(rx.data, CSBK) and vc.eq(rx.data.blocks_to_follow, (preambles - 1 - k) + 1 + nb))
        tx.process_packet(rx)
        k += 1
    kinds = [e[0] for e in o.ev]
    vc.prove("exactly_one_started_and_one_data_ended", kinds == ["start", "data_end"] and o.ev[0][1] == TransmissionTypes.DataTransmission)
    if kinds != ["start", "data_end"]:
        return
    ended_hdr, ended = o.ev[1][1], o.ev[1][2]
    blocks = [x for x in ended if isinstance(x, cls)]
    vc.prove("ended_with_all_data_blocks", len(blocks) == nb)
    vc.prove("ended_with_the_header", isinstance(ended_hdr, DataHeader) and vc.eq(ended_hdr.pad_octet_count, pad) and vc.eq(ended_hdr.blocks_to_follow, nb))
    data = b""
    for x in blocks:
        data = data + x.data
    vc.prove("data_is_payload_followed_by_the_announced_pad_octets", vc.eq(data, payload + bytes(pad)))
    if blocks:
        lastb = blocks[-1]
        # B.3.9: 32-bit CRC over the padded data taken as 16-bit words, low octet first; carried least significant octet first
        octs = S.byteswap16(list(data) if not hasattr(data, "v") else list(data.v))
        bits = []
        for x in octs:
            bits += vc.bitlist(x, 8)
        rem = vc.from_bits(S.poly_remainder_bits(bits, 0x04C11DB7, 32))
        carried = vc.from_bits(sum([vc.bitlist(rem, 32)[8 * i:8 * i + 8] for i in (3, 2, 1, 0)], []))
        vc.prove("trailing_crc32_matches_the_data", vc.eq(lastb.crc32, carried))
        vc.prove("last_block_is_flagged_last", lastb.is_last_block())
    if confirmed:
        for i, x in enumerate(blocks):
            vc.prove("confirmed_block_crc9_ok", x.crc9_ok)
            vc.prove("confirmed_block_is_typed_confirmed", x.is_confirmed())


def _gir_shapes(tier):
    for rate, (cls, table) in RATE.items():
        for confirmed in (False, True):
            per, last = table[confirmed]
            if tier == "thorough":
                small = list(range(0, 2 * per + last + 2))
                big = sorted(set(range(2 * per + last + 2, 1501, 29)) | {1266, 1267, 1499, 1500})
            else:  # every block-boundary neighbourhood of the first three blocks, then a few long ones
                small = sorted({0, 1, last - 1, last, last + 1, last + per - 1, last + per, last + per + 1, last + 2 * per, last + 2 * per + 1})
                big = sorted({100, min(1500, 126 * per + last), min(1500, 126 * per + last + 1)})
            for L in small:
                for pre in ((0, 2) if tier == "quick" else (0, 1, 3, 16)):
                    if tier == "quick" and pre != (0, 2)[L % 2]:
                        continue
                    yield dict(rate=rate, L=L, confirmed=confirmed, preambles=pre, symbolic=True)
            for L in big:
                yield dict(rate=rate, L=L, confirmed=confirmed, preambles=16 if L % 2 else 1, symbolic=False)


generated_is_received.shapes = _gir_shapes
generated_is_received.cost = 60
generated_is_received.budget_s = 3000  # (thorough tier: literal payloads of 1 000+ octets with 16 preambles take more than the default 600 s)
generated_is_received.native_random = 30
