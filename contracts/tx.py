"""C07 contracts (first configuration family): generator -> bytes -> parser -> receiver, RateXData.__init__ cut by its
contract with an if-then-else-merged post-state"""
import math
from pyvc.contract import contract
from okdmr.dmrlib.transmission.transmission_generator import TransmissionGenerator as TG
from okdmr.dmrlib.transmission.transmission import Transmission
from okdmr.dmrlib.transmission.transmission_observer_interface import TransmissionObserverInterface
from okdmr.dmrlib.etsi.layer2.burst import Burst
import okdmr.dmrlib.etsi.layer2.pdu.rate12_data as r12
from okdmr.dmrlib.etsi.layer2.pdu.rate12_data import Rate12Data, Rate12DataTypes
from okdmr.dmrlib.etsi.layer2.pdu.data_header import DataHeader
from okdmr.dmrlib.etsi.layer2.elements.data_packet_formats import DataPacketFormats
from okdmr.dmrlib.etsi.layer2.elements.sap_identifier import SAPIdentifier
from okdmr.dmrlib.etsi.layer2.elements.full_message_flag import FullMessageFlag
from okdmr.dmrlib.etsi.layer2.elements.resynchronize_flag import ResynchronizeFlag
from okdmr.dmrlib.etsi.layer2.elements.crc_masks import CrcMasks
from okdmr.dmrlib.etsi.crc.crc9 import CRC9


class Obs(TransmissionObserverInterface):
    def __init__(self):
        self.ev = []

    def transmission_started(self, transmission_type):
        self.ev.append(("start", transmission_type))

    def data_transmission_ended(self, transmission_header, blocks):
        self.ev.append(("data_end", transmission_header, list(blocks)))

    def voice_transmission_ended(self, voice_header, blocks):
        self.ev.append(("voice_end", voice_header, list(blocks)))


def _ite_int(z, a, b, width):
    """bitwise if z then a else b on ints given as SInt/int (z: bit)"""
    from pyvc.values import SInt, band, bxor
    a, b = SInt.lift(a), SInt.lift(b)
    return SInt([bxor(b.bit(i), band(z, bxor(a.bit(i), b.bit(i)))) for i in range(width)]).n()


def rate12_init_contract(self, data, packet_type=Rate12DataTypes.Undefined, dbsn=0, crc9=0, crc32=0):
    """post-state of Rate12Data.__init__ with the two in-band zero tests merged instead of forked"""
    from pyvc.values import SInt, SBits, bnot, s_ba2int, s_int_from_bytes
    from pyvc.shadows import s_isinstance
    self.data = data if s_isinstance(data, bytes) else data.tobytes()
    Rate12Data.validate_packet_type(packet_type=packet_type, data_length=len(self.data))
    self.dbsn = dbsn if s_isinstance(dbsn, int) else s_ba2int(dbsn)
    self.packet_type = Rate12DataTypes(len(self.data))
    self.crc32 = crc32 if s_isinstance(crc32, int) else s_int_from_bytes(crc32, byteorder="big")
    crc9_in = crc9 if s_isinstance(crc9, int) else s_ba2int(crc9[::-1])
    without = CRC9.calculate_from_parts(data=self.data, serial_number=self.dbsn, crc32=None, mask=CrcMasks.Rate12DataContinuation)
    if isinstance(self.crc32, int):
        calc = without if self.crc32 == 0 else CRC9.calculate_from_parts(data=self.data, serial_number=self.dbsn, crc32=self.crc32, mask=CrcMasks.Rate12DataContinuation)
    else:
        c32 = SInt.lift(self.crc32)
        nz = bnot(c32._is_zero())
        with_ = CRC9.calculate_from_parts(data=self.data, serial_number=self.dbsn, crc32=c32.to_bytes(4, "big"), mask=CrcMasks.Rate12DataContinuation)
        calc = _ite_int(nz, with_, without, 9)
    if isinstance(crc9_in, int):
        self.crc9 = calc if crc9_in <= 0 else crc9_in
    else:
        z = SInt.lift(crc9_in)._is_zero()
        self.crc9 = _ite_int(z, calc, crc9_in, 9)
    e = SInt.lift(self.crc9) == calc if not (isinstance(self.crc9, int) and isinstance(calc, int)) else (self.crc9 == calc)
    self.crc9_ok = e


@contract("Transmission.generated_is_received", "okdmr.dmrlib.transmission.transmission_generator:TransmissionGenerator.generate_full_data_transmission", ["C07"], stubs=["Rate12Data.__init__"])
def generated_is_received(vc, L, confirmed, preambles):
    payload = vc.bytes_(L, "p")
    per, last = (10, 6) if confirmed else (12, 8)
    nb = math.ceil(1 + (L - last) / per)
    pad = (nb - 1) * per + last - L
    hdr = DataHeader(dpf=DataPacketFormats.DataPacketConfirmed if confirmed else DataPacketFormats.DataPacketUnconfirmed,
                     is_response_requested=confirmed, pad_octet_count=pad, sap_identifier=SAPIdentifier.ShortData,
                     llid_destination=vc.uint(24, "dst"), llid_source=vc.uint(24, "src"), full_message_flag=FullMessageFlag(1),
                     blocks_to_follow=nb, resynchronize_flag=ResynchronizeFlag(0), send_sequence_number=0, fragment_sequence_number=8)
    real = Rate12Data.__init__
    import okdmr.dmrlib.etsi.crc.crc as _crc
    real_bs = _crc.BitCrcRegister._process_bits
    if vc.mode == "symbolic":
        from contracts.crc import _bitserial_contract
        Rate12Data.__init__ = rate12_init_contract
        _crc.BitCrcRegister._process_bits = _bitserial_contract
    try:
        bursts = TG.generate_full_data_transmission(Rate12Data, payload, hdr, csbk_count=preambles, colour_code=1)
        o = Obs()
        tx = Transmission(o)
        for b in bursts:
            tx.process_packet(Burst.from_bytes(b.as_bytes()))
    finally:
        Rate12Data.__init__ = real
        _crc.BitCrcRegister._process_bits = real_bs
    kinds = [e[0] for e in o.ev]
    vc.prove("exactly_one_start_one_data_end", kinds == ["start", "data_end"])
    blocks = [x for x in (o.ev[1][2] if len(o.ev) > 1 else []) if isinstance(x, Rate12Data)]
    vc.prove("block_count", len(blocks) == nb)
    data = b""
    for x in blocks:
        data = data + x.data
    vc.prove("data_is_payload_plus_announced_pad", vc.eq(data, payload + b"\x00" * pad))
    if confirmed:
        for i, x in enumerate(blocks):
            vc.prove("confirmed_block_crc9_ok", x.crc9_ok)


generated_is_received.shapes = lambda tier: [dict(L=L, confirmed=c, preambles=p) for L in (0, 5, 6, 7, 16, 20) for c in (False, True) for p in (0, 2)]
