"""C20: repeater storage, by induction over operations: ONE operation from ANY storage of <= 3 records satisfying the
invariant (dictionary key = record id, ids pairwise distinct, incoming addresses pairwise distinct), addresses / attribute keys
from a small literal pool, patched values symbolic.  Functions under contract: RepeaterStorage.match_incoming / save /
match_attr / match_ip_incoming / match_uuid / create_repeater / __len__ / all, Repeater.attr / delete_attr / patch."""
import itertools

from pyvc.contract import contract
from okdmr.dmrlib.storage.repeater_storage import RepeaterStorage
from okdmr.dmrlib.storage.repeater import Repeater

POOL = [("10.0.0.1", 50000), ("10.0.0.2", 50000), ("10.0.0.1", 50001), ("192.168.7.7", 1)]
PRE = [(), (0,), (1,), (0, 1), (0, 2), (0, 1, 2), (2, 3, 1)]  # which pool addresses are already known (in creation order)
PATCHES = {
    "none": lambda vc: {},
    "dmr_id": lambda vc: {"dmr_id": vc.uint(24, "v1")},
    "dmr_id+callsign": lambda vc: {"dmr_id": vc.uint(24, "v1"), "callsign": "OK1XYZ"},
    "dynamic": lambda vc: {"p2p_is_registered": vc.uint(1, "v1") == 1, "firmware": vc.uint(16, "v2")},
    "address_out": lambda vc: {"address_out": ("10.9.9.9", 4000), "nat_enabled": True},
    "mixed": lambda vc: {"serial": "SN-1", "custom": vc.uint(8, "v2")},
    # (every built-in field is named by some patch: 'exactly the named built-in fields')
    "address_nat": lambda vc: {"address_nat": ("198.51.100.7", 40000), "snmp_enabled": False},
    "address_in": lambda vc: {"address_in": ("10.7.7.7", 50123)},
    # a patch may set a member back to None (every record of the pre-state has a dmr_id)
    "none_values": lambda vc: {"dmr_id": None, "callsign": None, "custom": vc.uint(8, "v2")},
    # a dynamic attribute the record ALREADY has (every record of the pre-state carries "seen"): patched again, with another value
    "existing_dynamic": lambda vc: {"seen": 1000 + vc.uint(8, "v3"), "firmware": vc.uint(16, "v2")},
}


def build(vc, pre, prelude=0):
    """a storage reached by a history: (prelude 1: every pool address is first looked up without auto-create - a miss -, so that
    whatever the storage remembers about misses is part of the pre-state; prelude 2: misses interleaved with the creations)"""
    st = RepeaterStorage()
    recs = []
    if prelude == 1:
        for a in POOL:
            st.match_incoming(a)
    for k, i in enumerate(pre):
        if prelude == 2:
            for a in POOL:
                if a not in [POOL[j] for j in pre[:k]]:
                    st.match_incoming(a)
        r = st.match_incoming(POOL[i], auto_create=True)
        r.dmr_id = 2300000 + k
        r.attr("seen", k + 1)
        recs.append(r)
    return st, recs


FIELDS = ("id", "address_in", "address_out", "address_nat", "snmp_enabled", "nat_enabled", "dmr_id", "callsign", "serial")


def snap(r):
    return dict({f: getattr(r, f) for f in FIELDS}, attrs=dict(r._Repeater__attrs))


def unchanged(vc, r, s, but=()):
    now = snap(r)
    ok = []
    for f in FIELDS:
        if f not in but:
            ok.append(_same(vc, now[f], s[f]))
    if "attrs" not in but:
        ok.append(set(now["attrs"]) == set(s["attrs"]) and vc.and_(*[_same(vc, now["attrs"][k], s["attrs"][k]) for k in s["attrs"]]))
    return vc.and_(*ok)


def _same(vc, a, b):
    if a is b:
        return True
    if isinstance(a, (tuple, str, type(None))) or isinstance(b, (tuple, str, type(None))) or isinstance(a, bool) and isinstance(b, bool):
        return a == b
    try:
        return vc.eq(a, b)
    except Exception:
        return a == b


def invariant(vc, st):
    recs = st.all()
    ids = [r.id for r in recs]
    keys = list(st._RepeaterStorage__repeaters.keys())
    vc.prove("invariant.keys_are_the_record_ids", all(st._RepeaterStorage__repeaters[k].id == k for k in keys))
    vc.prove("invariant.no_two_records_with_the_same_id", len(set(ids)) == len(ids) and len({id(r) for r in recs}) == len(recs))
    vc.prove("invariant.len_counts_the_records", len(st) == len(recs))


@contract("RepeaterStorage.match_incoming", "okdmr.dmrlib.storage.repeater_storage:RepeaterStorage.match_incoming", ["C20", "C18"])
def match_incoming(vc, pre, addr, auto_create, patch, prelude=0):
    st, recs = build(vc, PRE[pre], prelude)
    before = [snap(r) for r in recs]
    n0 = len(st)
    known = {POOL[i]: recs[k] for k, i in enumerate(PRE[pre])}
    a = POOL[addr]
    p = PATCHES[patch](vc)
    got = st.match_incoming(a, auto_create=auto_create, patch=p)
    invariant(vc, st)
    if a in known:
        vc.prove("same_object_for_the_same_address", got is known[a])
        vc.prove("lookup_of_a_known_address_never_grows_the_storage", len(st) == n0)
    elif auto_create:
        now = p.get("address_in", a)  # (a patch may name the inbound address itself: the created record then carries the patched one)
        vc.prove("auto_create_of_an_unseen_address_creates_one_record", len(st) == n0 + 1 and isinstance(got, Repeater) and got.address_in == now)
        vc.prove("created_record_is_stored_under_its_id", st.match_attr("id", got.id) is got and st.match_incoming(now) is got)
        vc.prove("created_record_has_a_fresh_id", all(got.id != s["id"] for s in before))
    else:
        vc.prove("lookup_without_auto_create_never_grows_the_storage", len(st) == n0)
        vc.prove("unseen_address_without_auto_create_gives_none", got is None)
    # patch touches exactly the named members / attributes of exactly the matched record
    for r, s in zip(recs, before):
        if r is got:
            named_fields = [k for k in p if k in FIELDS]
            named_attrs = [k for k in p if k not in FIELDS]
            vc.prove("patch_leaves_unnamed_members_alone", unchanged(vc, r, s, but=tuple(named_fields) + ("attrs",)))
            for k in named_fields:
                vc.prove("patch_sets_the_named_member", _same(vc, getattr(r, k), p[k]))
            for k in named_attrs:
                vc.prove("patch_sets_the_named_attribute", _same(vc, r.attr(k), p[k]))
            vc.prove("patch_leaves_unnamed_attributes_alone", all(k in r._Repeater__attrs and _same(vc, r._Repeater__attrs[k], v) is not False for k, v in s["attrs"].items() if k not in p)
                     and set(r._Repeater__attrs) == set(s["attrs"]) | set(named_attrs))
        else:
            vc.prove("other_records_untouched", unchanged(vc, r, s))
    if got is not None and got not in recs:
        for k, v in p.items():
            vc.prove("patch_applies_to_the_created_record", _same(vc, getattr(got, k) if k in FIELDS else got.attr(k), v))


def _mi_shapes(tier):
    for pre in range(len(PRE)):
        for addr in range(len(POOL)):
            for ac in (False, True):
                for patch in (PATCHES if tier == "thorough" or (pre + addr) % 2 == 0 else ("none", "dmr_id")):
                    yield dict(pre=pre, addr=addr, auto_create=ac, patch=patch)
                for prelude in (1, 2):
                    yield dict(pre=pre, addr=addr, auto_create=ac, patch="dmr_id" if prelude == 1 else "none", prelude=prelude)


match_incoming.shapes = _mi_shapes


@contract("RepeaterStorage.lookups", "okdmr.dmrlib.storage.repeater_storage:RepeaterStorage.match_attr", ["C20", "C18"])
def lookups(vc, pre, prelude=0):
    st, recs = build(vc, PRE[pre], prelude)
    before = [snap(r) for r in recs]
    n0 = len(st)
    for k, i in enumerate(PRE[pre]):
        vc.prove("match_attr_address_in_finds_the_record", st.match_attr("address_in", POOL[i]) is recs[k])
        vc.prove("match_attr_id_finds_the_record", st.match_attr("id", recs[k].id) is recs[k])
        vc.prove("match_uuid_finds_the_record", st.match_uuid(recs[k].id) is recs[k])
        vc.prove("match_attr_dmr_id_finds_the_record", st.match_attr("dmr_id", 2300000 + k) is recs[k])
    for i in range(len(POOL)):
        ips = [POOL[j][0] for j in PRE[pre]]
        hit = st.match_ip_incoming(POOL[i][0])
        vc.prove("match_ip_incoming_finds_the_first_record_with_that_ip", (hit is recs[ips.index(POOL[i][0])]) if POOL[i][0] in ips else hit is None)
        if i not in PRE[pre]:
            vc.prove("match_attr_of_an_unseen_address_gives_none", st.match_attr("address_in", POOL[i]) is None)
    import uuid as _uuid

    try:
        st.match_uuid(_uuid.UUID(int=1))
        vc.prove("match_uuid_of_an_unknown_id_raises_system_error", False)
    except SystemError:
        vc.prove("match_uuid_of_an_unknown_id_raises_system_error", True)
    vc.prove("lookups_never_grow_the_storage", len(st) == n0 and len(st.all()) == n0)
    for r, s in zip(recs, before):
        vc.prove("lookups_change_no_record", unchanged(vc, r, s))
    invariant(vc, st)


lookups.shapes = lambda tier: [dict(pre=p, prelude=q) for p in range(len(PRE)) for q in (0, 1, 2)]


@contract("RepeaterStorage.save", "okdmr.dmrlib.storage.repeater_storage:RepeaterStorage.save", ["C20"])
def save(vc, pre, which, patch):
    st, recs = build(vc, PRE[pre])
    if which >= len(recs):
        return
    before = [snap(r) for r in recs]
    n0 = len(st)
    p = PATCHES[patch](vc)
    got = st.save(recs[which], patch=p)
    vc.prove("save_returns_the_record", got is recs[which])
    vc.prove("save_never_grows_the_storage", len(st) == n0)
    invariant(vc, st)
    for k, (r, s) in enumerate(zip(recs, before)):
        if k != which:
            vc.prove("other_records_untouched", unchanged(vc, r, s))
    for key, v in p.items():
        vc.prove("patch_applied", _same(vc, getattr(got, key) if key in FIELDS else got.attr(key), v))


save.shapes = lambda tier: [dict(pre=p, which=w, patch=pt) for p in (1, 3, 5) for w in range(3) for pt in PATCHES]


@contract("Repeater.attr", "okdmr.dmrlib.storage.repeater:Repeater.attr", ["C20"])
def repeater_attrs(vc):
    r = Repeater(address_in=POOL[0])
    other = Repeater(address_in=POOL[1])
    s_other = snap(other)
    ident = r.id
    v = vc.uint(16, "v")
    vc.assume(vc.not_(vc.eq(v, 0)))
    vc.prove("unset_attribute_reads_none", r.attr("k1") is None)
    vc.prove("attr_write_returns_the_value", _same(vc, r.attr("k1", v), v))
    vc.prove("attr_reads_back", _same(vc, r.attr("k1"), v))
    vc.prove("delete_of_a_set_attribute_returns_true", r.delete_attr("k1") is True and r.attr("k1") is None)
    vc.prove("delete_of_a_missing_attribute_returns_false", r.delete_attr("never-set") is False)
    r.patch({"dmr_id": v, "zone": 7, "ignored": None})
    vc.prove("patch_sets_members_and_attributes", _same(vc, r.dmr_id, v) and r.attr("zone") == 7 and r.attr("ignored") is None)
    vc.prove("identity_is_stable", r.id == ident)
    vc.prove("other_record_untouched", unchanged(vc, other, s_other))


@contract("RepeaterStorage.patch_of_id", "okdmr.dmrlib.storage.repeater_storage:RepeaterStorage.save", ["C20"])
def patch_of_id(vc, pre, which, target):
    """a patch that names the built-in field `id`: whatever it does, the storage must not end up holding two records with the
    same id, nor lose a record"""
    import uuid as _uuid

    st, recs = build(vc, PRE[pre])
    if which >= len(recs) or target >= len(recs):
        return
    n0 = len(st)
    new_id = recs[target].id if target != which else _uuid.UUID(int=7)
    st.match_incoming(recs[which].address_in, patch={"id": new_id})
    invariant(vc, st)
    vc.prove("no_record_lost_or_duplicated", len(st) == n0 and all(any(x is r for x in st.all()) for r in recs))


patch_of_id.shapes = lambda tier: [dict(pre=p, which=w, target=t) for p in (3, 5) for w in range(3) for t in range(3)]
