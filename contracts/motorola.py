"""C16: Motorola TMS (text messaging) and ARS (automatic registration) messages.

Functions under contract: TMS FirstHeader / AvailabilitySecondHeader .as_bytes / from_bytes, TextMessagingService.as_bytes /
from_bytes / encode_sn_and_encoding / decode_sn_and_encoding / encode_address_field; ARS FirstHeader / ResponseSecondHeader /
RegistrationRequestHeader .as_bytes / from_bytes, AutomaticRegistrationService.as_bytes / from_bytes / get_payload /
encode_len_val / read_len_val / __len__.
Identifiers and passwords of ARS registration requests are Python str objects (UTF-8 encode / decode): string handling is outside
the engine - bounded native enumeration over seeded strings (labelled bounded); everything else is symbolic."""
from pyvc.contract import contract, PathEnd
from contracts.pdu_common import same, compare_fields, enum_of
from contracts.hytera import octs
from okdmr.dmrlib.motorola import text_messaging_service as T
from okdmr.dmrlib.motorola import automatic_registration_service as A


def _flag(vc, name):
    return vc.fork(vc.flag(name))


# ---------------------------------------------------------------------------------------------- TMS
@contract("TextMessagingService.as_bytes", "okdmr.dmrlib.motorola.text_messaging_service:TextMessagingService.as_bytes", ["C16", "C19"])
def tms_roundtrip(vc, kind, alen, mlen=0, enc=None, opt=True):
    """kind: availability / ack / text;  opt: the optional part is present (availability header / acknowledged sequence
    number);  enc: None or 'UCS2_LE';  address and message: symbolic octets of literal length"""
    ack, rsv, hm = _flag(vc, "ack"), _flag(vc, "rsv"), _flag(vc, "hm")
    ptype = {"availability": T.TMSPDUType.SERVICE_AVAILABILITY, "ack": T.TMSPDUType.TMS_ACKNOWLEDGEMENT, "text": T.TMSPDUType.SIMPLE_TEXT_MESSAGE}[kind]
    hdr = T.FirstHeader(has_more_headers=hm, is_acknowledged=ack, is_reserved=rsv, pdu_type=ptype)
    addr = vc.bytes_(alen, "addr")
    kw = dict(first_header=hdr, address=addr)
    sn = cap = None
    if kind == "availability" and opt:
        cap = enum_of(vc, T.TMSDeviceCapability, 2, "cap")
        kw["availability_header"] = T.AvailabilitySecondHeader(capability=cap)
    if kind == "ack" and opt or kind == "text":
        sn = kw["sequence_number"] = vc.uint(7, "sn")
    if kind == "text":
        kw["encoding"] = None if enc is None else T.TMSEncoding[enc]
        kw["message"] = vc.bytes_(mlen, "msg")
    p = T.TextMessagingService(**kw)
    raw = p.as_bytes()
    vc.prove("leading_length_is_the_number_of_octets_that_follow", vc.eq(raw[0:2], (len(raw) - 2).to_bytes(2, "big")))
    more = (kind == "text") or opt
    tbits = ptype.value[1]
    vc.prove("first_header_octet", vc.eq(raw[2], (0x80 if more else 0) | (0x40 if ack else 0) | (0x20 if (rsv or kind == "text") else 0) | (0x10 if ptype.value[0] else 0) | tbits))
    vc.prove("address_field_is_length_then_address", vc.eq(raw[3], alen) and vc.eq(raw[4:4 + alen], addr))
    rest = raw[4 + alen:]
    if kind == "availability":
        vc.prove("optional_part", vc.eq(rest, octs(cap.value)) if opt else len(rest) == 0)
    else:
        body = mlen if kind == "text" else 0
        if sn is None:
            vc.prove("optional_part", len(rest) == 0)
        else:
            two = len(rest) - body == 2
            vc.prove("optional_header_is_one_or_two_octets", len(rest) - body in (1, 2))
            # two octets exactly when the sequence number needs its two high bits or an encoding is given
            vc.prove("second_optional_octet_exactly_when_needed", vc.iff(two, vc.or_(sn > 31, enc is not None)))
            vc.prove("first_optional_octet_is_more_flag_and_5_low_bits", vc.eq(rest[0], (0x80 if two else 0) | (sn & 0x1F)))
            if two:
                vc.prove("second_optional_octet_is_2_high_bits_and_encoding", vc.eq(rest[1], (sn & 0x60) | (T.TMSEncoding[enc].value if enc else 0)))
            if kind == "text":
                vc.prove("message_follows_the_headers", vc.eq(rest[len(rest) - body:], kw["message"]))
    q = T.TextMessagingService.from_bytes(raw)
    compare_fields(vc, p, q)
    vc.prove("reserialises_to_the_same_octets", vc.eq(q.as_bytes(), raw))


def _tms_shapes(tier):
    T_ = tier != "quick"
    alens = (0, 1, 3, 16, 255) if T_ else (0, 3)
    out = []
    for a in alens:
        for opt in (True, False):
            out.append(dict(kind="availability", alen=a, opt=opt))
            out.append(dict(kind="ack", alen=a, opt=opt))
        for enc in (None, "UCS2_LE"):
            for m in ((0, 2, 40, 400) if T_ else (0, 6)):
                out.append(dict(kind="text", alen=a, mlen=m, enc=enc))
    if not T_:  # the boundaries of the one-octet address length, one message of each kind
        for a in (127, 128, 255):
            out += [dict(kind="ack", alen=a, opt=True), dict(kind="availability", alen=a, opt=False), dict(kind="text", alen=a, mlen=6, enc=None)]
        # long texts (the statement: texts of 0..200 UCS-2 characters = 0..400 octets), around 140 characters and at the end
        for m in (280, 282, 400):
            out += [dict(kind="text", alen=3, mlen=m, enc="UCS2_LE"), dict(kind="text", alen=0, mlen=m, enc=None)]
    return out


tms_roundtrip.shapes = _tms_shapes


# ---------------------------------------------------------------------------------------------- ARS (symbolic part)
def ars_first_header(vc, ptype, more):
    return A.FirstHeader(has_more_headers=more, is_acknowledged=_flag(vc, "ack"), is_priority=_flag(vc, "pri"), is_control_message=_flag(vc, "ctl"), pdu_type=A.ARSPDUType[ptype])


def ars_frame_clauses(vc, p, raw, hdr):
    vc.prove("leading_length_is_the_number_of_octets_that_follow", vc.eq(raw[0:2], (len(raw) - 2).to_bytes(2, "big")))
    vc.prove("reported_length_is_the_number_of_octets", len(p) == len(raw))
    vc.prove("first_header_octet", vc.eq(raw[2], (0x80 if hdr.has_more_headers else 0) | (0x40 if hdr.is_acknowledged else 0) | (0x20 if hdr.is_priority else 0)
                                          | (0x10 if hdr.is_control_message else 0) | hdr.pdu_type.value))
    vc.prove("csbk_trailer_exactly_when_flagged", vc.eq(raw[-2:], b"\x10\x80") if p.is_csbk_ars else (len(raw) < 4 or vc.not_(vc.eq(raw[-2:], b"\x10\x80"))))


@contract("AutomaticRegistrationService.as_bytes", "okdmr.dmrlib.motorola.automatic_registration_service:AutomaticRegistrationService.as_bytes", ["C16", "C19"])
def ars_roundtrip(vc, ptype, more, csbk):
    """acknowledgement (with refresh time on success / failure reason on failure, or without second header), status query,
    de-registration notice: all header flags symbolic"""
    hdr = ars_first_header(vc, ptype, more)
    kw = dict(first_header=hdr, is_csbk_ars=csbk)
    second = None
    if ptype == "ARS_DEVICE_OR_QUERY_RESPONSE" and more:
        if hdr.is_acknowledged:  # failure scenario
            second = A.ResponseSecondHeader(failure_reason=enum_of(vc, A.FailureReason, 8, "why")).context(hdr)
        else:
            t = vc.uint(7, "refresh")
            vc.assume(vc.not_(vc.eq(t, 0)))
            second = A.ResponseSecondHeader(refresh_time=t).context(hdr)
        kw["response_second_header"] = second
    p = A.AutomaticRegistrationService(**kw)
    raw = p.as_bytes()
    ars_frame_clauses(vc, p, raw, hdr)
    if second is not None:
        vc.prove("second_header_octet_is_refresh_time_or_failure_reason", vc.eq(raw[3], second.failure_reason.value if hdr.is_acknowledged else second.refresh_time))
    vc.prove("number_of_octets", len(raw) == 3 + (1 if second is not None else 0) + (2 if csbk else 0))
    q = A.AutomaticRegistrationService.from_bytes(raw)
    compare_fields(vc, p, q, skip=("response_second_header",))
    if second is None:
        vc.prove("field.response_second_header", q.response_second_header is None)
    else:
        # the one octet is a refresh time after success and a failure reason after failure: the field the first header selects
        r = q.response_second_header
        vc.prove("field.response_second_header", r is not None and (same(vc, r.failure_reason, second.failure_reason) if hdr.is_acknowledged else vc.eq(r.refresh_time, second.refresh_time)))
    vc.prove("reserialises_to_the_same_octets", vc.eq(q.as_bytes(), raw))


ars_roundtrip.shapes = lambda tier: [dict(ptype=t, more=m, csbk=c) for t, ms in (("ARS_DEVICE_OR_QUERY_RESPONSE", (True, False)), ("STATUS_QUERY_REQUEST", (False,)), ("DEVICE_DEREGISTATION_NOTICE", (False,)))
                                     for m in ms for c in (False, True)]

# ---------------------------------------------------------------------------------------------- ARS registration requests (bounded)
STRINGS = ["", "1", "2308155", "user", "heslo123", "ž", "příliš žluťoučký", "紧急通知", "\U0001F600", "a" * 255, "é" * 127, "紧" * 85, "x\x10", "\x7f" * 3]


@contract("AutomaticRegistrationService.registration_strings", "okdmr.dmrlib.motorola.automatic_registration_service:AutomaticRegistrationService.encode_len_val", ["C16"], bounded=True,
          note="identifiers / passwords are str objects (UTF-8 encode / decode): seeded literal strings incl. multi-octet characters and 255-octet values")
def ars_registration(vc, ptype, more, csbk, dev, user, pwd, event):
    hdr = ars_first_header(vc, ptype, more)
    rrh = A.RegistrationRequestHeader(event=A.RegistrationEvent[event]) if more else None
    p = A.AutomaticRegistrationService(first_header=hdr, registration_request_header=rrh, device_identifier=dev, user_identifier=user, password=pwd, is_csbk_ars=csbk)
    raw = p.as_bytes()
    ars_frame_clauses(vc, p, raw, hdr)
    want = b""
    for s in (dev, user, pwd):
        e = s.encode("utf-8")
        want += bytes([len(e)]) + e
    body = raw[3 + (1 if more else 0): len(raw) - (2 if csbk else 0)]
    vc.prove("len_value_fields_count_encoded_octets", body == want)
    if more:
        vc.prove("request_header_octet_is_event_and_encoding", raw[3] == (A.RegistrationEvent[event].value << 5))
    q = A.AutomaticRegistrationService.from_bytes(raw)
    compare_fields(vc, p, q)
    vc.prove("reserialises_to_the_same_octets", q.as_bytes() == raw)


def _reg_shapes(tier):
    import random

    r = random.Random(16)
    out = []
    for i in range(120 if tier == "quick" else 4000):
        out.append(dict(ptype=r.choice(["DEVICE_REGISTRATION_REQUEST", "USER_REGISTRATION_REQUEST"]), more=r.random() < 0.6, csbk=r.random() < 0.4, dev=r.choice(STRINGS), user=r.choice(STRINGS),
                        pwd=r.choice(STRINGS), event=r.choice(["DONT_CARE", "INITIAL", "REFRESH"])))
    for s in STRINGS:  # each string in each position once
        out.append(dict(ptype="DEVICE_REGISTRATION_REQUEST", more=True, csbk=False, dev=s, user="", pwd="", event="INITIAL"))
        out.append(dict(ptype="USER_REGISTRATION_REQUEST", more=False, csbk=True, dev="1", user=s, pwd=s, event="DONT_CARE"))
    return out


ars_registration.shapes = _reg_shapes
ars_registration.native_all = True
