"""C06: Hamming (7,4,3) (13,9,3) (15,11,3) (16,11,4) (17,12,3), Golay (20,8,7), quadratic residue (16,7,6).

Functions under contract: HammingCommon.generate / check / check_and_correct (five subclasses), Golay2087.generate / check,
QuadraticResidue1676.generate / check; inlined callees: fec_utils.get_syndrome_for_word, derive_parity_check_matrix_from_generator
(import-time), bits_bytes helpers.  Contents are fully symbolic: one run covers all 2^k messages / all 2^n words.
"""
import itertools

from pyvc.contract import contract, stub, current_vc
from okdmr.dmrlib.etsi.fec.golay_20_8_7 import Golay2087
from okdmr.dmrlib.etsi.fec.hamming_7_4_3 import Hamming743
from okdmr.dmrlib.etsi.fec.hamming_13_9_3 import Hamming1393
from okdmr.dmrlib.etsi.fec.hamming_15_11_3 import Hamming15113
from okdmr.dmrlib.etsi.fec.hamming_16_11_4 import Hamming16114
from okdmr.dmrlib.etsi.fec.hamming_17_12_3 import Hamming17123
from okdmr.dmrlib.etsi.fec.quadratic_residue_16_7_6 import QuadraticResidue1676

HAMMING = {c.__name__: c for c in (Hamming743, Hamming1393, Hamming15113, Hamming16114, Hamming17123)}
# (class, n, k, advertised minimum distance) - n, k, d are the code parameters the standard (and the class name) advertises
CODES = {
    "Hamming743": (Hamming743, 7, 4, 3),
    "Hamming1393": (Hamming1393, 13, 9, 3),
    "Hamming15113": (Hamming15113, 15, 11, 3),
    "Hamming16114": (Hamming16114, 16, 11, 4),
    "Hamming17123": (Hamming17123, 17, 12, 3),
    "Golay2087": (Golay2087, 20, 8, 7),
    "QuadraticResidue1676": (QuadraticResidue1676, 16, 7, 6),
}


# The exact codeword set (C06's title): each DMR block code is a shortened and / or parity-extended CYCLIC code, so its codewords
# are exactly the multiples of a generator polynomial (ETSI TS 102 361-1 B.3.1 - B.3.5 give the matrices; the polynomials below
# are the well-known generators of the Hamming (7,4) (15,11) (31,26), Golay (23,12) and quadratic-residue (17,9) codes those
# matrices are built from, written down from knowledge of the codes, not read from the repository).  (g(x) as an int, number of
# overall-parity bits appended).  A matrix entry changed so that (n, k, d) survive still changes the codeword set - and what is
# sent on air no longer decodes on a standard receiver.
ETSI_GENERATOR = {
    "Hamming743": (0b1011, 0), "Hamming1393": (0b10011, 0), "Hamming15113": (0b10011, 0), "Hamming16114": (0b10011, 1),
    "Hamming17123": (0b100101, 0), "Golay2087": (0xC75, 1), "QuadraticResidue1676": (0x139, 1),
}


def in_the_standard_code(vc, code, cw):
    """cw (bit-likes, first bit = highest power): multiple of the code's generator polynomial, overall parity even"""
    from spec.crc import poly_remainder_bits

    g, ext = ETSI_GENERATOR[code]
    w = g.bit_length() - 1
    body = cw[:len(cw) - ext]
    rem = poly_remainder_bits(body, g & ((1 << w) - 1), w)  # (c(x) x^w mod g = 0  <=>  c(x) mod g = 0: g has a constant term)
    ok = [vc.eq(r, 0) for r in rem]
    if ext:
        par = 0
        for b in cw:
            par = b ^ par
        ok.append(vc.eq(par, 0))
    return vc.and_(*ok)


def aslist(x):
    return x.tolist() if hasattr(x, "tolist") else list(x)


def _target(code, fn):
    return "okdmr.dmrlib.etsi.fec.hamming_common:HammingCommon." + fn


@contract("BlockCode.generate", "okdmr.dmrlib.etsi.fec.hamming_common:HammingCommon.generate", ["C06", "C19", "C04", "C09", "C02"],
          note="also Golay2087.generate, QuadraticResidue1676.generate (same text, one shape per code)")
def generate(vc, code):
    H, n, k, d = CODES[code]
    m = vc.bits(k, "m")
    before = m.copy()
    cw = aslist(H.generate(m))
    vc.prove("length_n", len(cw) == n)
    vc.prove("systematic", vc.eq(vc.mkbits(cw[:k]), m))
    vc.prove("output_passes_check", H.check(vc.mkbits(cw)))
    vc.prove("codeword_belongs_to_the_standard_code", in_the_standard_code(vc, code, cw))
    vc.prove("frame_argument_unchanged", vc.eq(m, before))
    # lemma: minimum distance of the image >= advertised d.  Symbolically: the run above shows generate is the GF(2)-linear
    # map x -> G x with G read off the canonical forms (affine, zero constant), so distance = minimum weight of the 2^k - 1
    # non-zero codewords of G, enumerated exactly.  Natively (replay / cross-check): all 2^k messages through the real encoder.
    if vc.mode == "symbolic":
        rows, consts = vc.linear_map(cw, list(m))
        vc.prove("generate_is_linear", not any(consts))
        cols = [sum(((rows[i] >> j) & 1) << i for i in range(n)) for j in range(k)]  # image of unit message j as an n-bit word
        best, arg = n + 1, None
        for x in range(1, 1 << k):
            w = 0
            for j in range(k):
                if (x >> j) & 1:
                    w ^= cols[j]
            wt = bin(w).count("1")
            if wt < best:
                best, arg = wt, x
        vc.prove("minimum_distance_at_least_advertised", best >= d, note=dict(min_weight=best, message="".join(str((arg >> j) & 1) for j in range(k))))
    else:
        from bitarray import bitarray
        from bitarray.util import int2ba

        words = []
        for x in range(1 << k):
            words.append(int("".join(str(int(b)) for b in aslist(H.generate(int2ba(x, length=k)))), 2))
        lin = all(words[x ^ y] == words[x] ^ words[y] for x in (1, 2, 5, (1 << k) - 1) for y in range(1 << k))
        vc.prove("generate_is_linear", lin)
        vc.prove("minimum_distance_at_least_advertised", min(bin(w).count("1") for w in words[1:]) >= d)


generate.shapes = lambda tier: [dict(code=c) for c in CODES]


@contract("BlockCode.check", "okdmr.dmrlib.etsi.fec.hamming_common:HammingCommon.check", ["C06", "C19", "C04"],
          note="also Golay2087.check, QuadraticResidue1676.check")
def check(vc, code):
    """all 2^n received words: accepted iff the word is the encoding of its own first k bits (= iff it is one of the 2^k
    codewords, the encoder being systematic)"""
    H, n, k, d = CODES[code]
    w = vc.bits(n, "w")
    before = w.copy()
    ok = H.check(w)
    enc = vc.mkbits(aslist(H.generate(w[:k])))
    vc.prove("accepts_exactly_the_codewords", vc.iff(ok, vc.eq(enc, w)))
    vc.prove("frame_argument_unchanged", vc.eq(w, before))


check.shapes = lambda tier: [dict(code=c) for c in CODES]


@contract("Hamming.check_and_correct.single_error", "okdmr.dmrlib.etsi.fec.hamming_common:HammingCommon.check_and_correct", ["C06", "C02"])
def single_error(vc, code, pos):
    H = HAMMING[code]
    m = vc.bits(H.CODE_DIMENSION, "m")
    cw = vc.mkbits(aslist(H.generate(m)))
    rx = cw.copy()
    if pos >= 0:
        rx.invert(pos)
    ok, fixed = H.check_and_correct(rx)
    vc.prove("reports_ok", ok)
    vc.prove("repaired_to_original_codeword", vc.eq(fixed, cw))
    vc.prove("repairs_in_place_and_returns_the_buffer", fixed is rx)


single_error.shapes = lambda tier: [dict(code=c, pos=p) for c, H in HAMMING.items() for p in range(-1, H.CODEWORD_LENGTH)]


@contract("Hamming16114.check_and_correct.double_error", "okdmr.dmrlib.etsi.fec.hamming_common:HammingCommon.check_and_correct", ["C06"])
def double_error(vc, i, j):
    H = Hamming16114
    m = vc.bits(11, "m")
    rx = vc.mkbits(aslist(H.generate(m)))
    rx.invert(i)
    rx.invert(j)
    before = rx.copy()
    ok, out = H.check_and_correct(rx)
    vc.prove("double_error_reported_uncorrectable", vc.not_(ok))
    vc.prove("double_error_not_misrepaired", vc.eq(out, before))


double_error.shapes = lambda tier: [dict(i=i, j=j) for i, j in itertools.combinations(range(16), 2)]


@contract("Hamming.correct_numpy_array", "okdmr.dmrlib.etsi.fec.hamming_common:HammingCommon.correct_numpy_array", ["C06"])
def correct_numpy(vc, code, pos):
    """numpy front end used by the BPTC decoders: same repair, returns a fresh array"""
    import numpy

    H = HAMMING[code]
    m = vc.bits(H.CODE_DIMENSION, "m")
    cw = aslist(H.generate(m))
    rx = list(cw)
    if pos >= 0:
        rx[pos] = rx[pos] ^ 1
    out = aslist(H.correct_numpy_array(_nparr(vc, rx)))
    vc.prove("repaired_to_original_codeword", vc.eq(vc.mkbits(out), vc.mkbits(cw)))


def _nparr(vc, bits):
    import numpy

    if vc.mode == "native":
        return numpy.array([int(b) for b in bits])
    return numpy.array(list(bits), dtype=object)


correct_numpy.shapes = lambda tier: [dict(code=c, pos=p) for c, H in HAMMING.items() for p in ((-1, 0, H.CODEWORD_LENGTH - 1) if tier == "quick" else range(-1, H.CODEWORD_LENGTH))]


@contract("Hamming.correct_numpy_array.any_word", "okdmr.dmrlib.etsi.fec.hamming_common:HammingCommon.correct_numpy_array", ["C06", "C02", "C07", "C08"])
def correct_numpy_any(vc, code):
    """ANY received word (n free bits): never raises, returns n bits, leaves its argument alone"""
    H = HAMMING[code]
    n = H.CODEWORD_LENGTH
    w = vc.bits(n, "w")
    arr = _nparr(vc, w.tolist())
    out = aslist(H.correct_numpy_array(arr))
    vc.prove("returns_n_bits", len(out) == n)
    vc.prove("frame_argument_unchanged", vc.eq(vc.mkbits(aslist(arr)), w))
    # (what comes back for a word that is not within one bit of a codeword is nobody's business: no listed property says
    # anything about it, and the callers' stub promises only 'some n bits'.  A clause 'a codeword or the unchanged word' stood
    # here and raised an alarm on a change - argmax on an unmatched syndrome - under which C02 and C06 still hold: removed)


correct_numpy_any.shapes = lambda tier: [dict(code=c) for c in ("Hamming15113", "Hamming1393")]


@stub("HammingCommon.correct_numpy_array", "okdmr.dmrlib.etsi.fec.hamming_common:HammingCommon.correct_numpy_array", provided_by="Hamming.correct_numpy_array.any_word")
def correct_numpy_havoc(cls, bits):
    """over-approximation for callers that run the repair on arbitrary words: some n bits come back"""
    import numpy

    vc = current_vc()
    return numpy.array(vc.havoc_bits(len(bits)).tolist(), dtype=object)
