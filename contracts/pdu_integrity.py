"""C04: integrity indicators.  (1) self-consistency clauses live in the build_parse contracts (parsed_back_*_ok);
(2) the two FEC words: indicator == codeword membership on ALL received words; (3) detection: a literal single-bit error or
a SYMBOLIC non-zero burst confined to a window of check-field width at a literal position, applied to a PDU built from
symbolic fields: the parse raises, or the indicator is false, or every field value equals the sent one."""
from pyvc.contract import contract, PathEnd
from contracts.pdu_common import DOCUMENTED, same
from contracts.pdu_other import build_header, DH_KINDS, CRCSTUB, RATES
from okdmr.dmrlib.etsi.layer2.pdu.slot_type import SlotType
from okdmr.dmrlib.etsi.layer2.pdu.embedded_signalling import EmbeddedSignalling
from okdmr.dmrlib.etsi.layer2.pdu.data_header import DataHeader
from okdmr.dmrlib.etsi.layer2.pdu.pi_header import PIHeader
from okdmr.dmrlib.etsi.layer2.pdu.short_link_control import ShortLinkControl
from okdmr.dmrlib.etsi.layer2.elements.slcos import SLCOs
from okdmr.dmrlib.etsi.layer3.elements.activity_id import ActivityID
from okdmr.dmrlib.etsi.fec.golay_20_8_7 import Golay2087
from okdmr.dmrlib.etsi.fec.quadratic_residue_16_7_6 import QuadraticResidue1676


@contract("SlotType.from_bits.all_words", "okdmr.dmrlib.etsi.layer2.pdu.slot_type:SlotType.from_bits", ["C04"])
def slot_all_words(vc):
    w = vc.bits(20, "w")
    keep = w.copy()
    s = SlotType.from_bits(w)
    name = "indicator_equals_golay_codeword_membership"
    if vc.fork(vc.from_bits(keep.tolist()[4:8]) >= 13):
        name += "_when_the_data_type_value_is_undefined"  # 13..15 fold to Reserved (12): parity is checked over 1100
    vc.prove(name, vc.iff(s.fec_parity_ok, Golay2087.check(keep)))
    vc.prove("colour_code_is_the_first_nibble", vc.eq(s.colour_code, vc.from_bits(keep.tolist()[:4])))


@contract("EmbeddedSignalling.from_bits.all_words", "okdmr.dmrlib.etsi.layer2.pdu.embedded_signalling:EmbeddedSignalling.from_bits", ["C04"])
def emb_all_words(vc):
    w = vc.bits(16, "w")
    keep = w.copy()
    s = EmbeddedSignalling.from_bits(w)
    name = "indicator_equals_qr_codeword_membership"
    if vc.fork(vc.eq(vc.from_bits(keep.tolist()[7:16]), 0)):
        name += "_when_the_parity_field_is_zero"  # in-band 'please generate' sentinel (pinned by the repository's tests)
    vc.prove(name, vc.iff(s.emb_parity_ok, QuadraticResidue1676.check(keep)))
    vc.prove("colour_code_is_the_first_nibble", vc.eq(s.colour_code, vc.from_bits(keep.tolist()[:4])))


def corrupt(vc, bits, start, width, order=None):
    """width == 1: invert one literal bit; else XOR a symbolic non-zero pattern into a window of `width` positions.
    Positions are counted in CODEWORD order (the order in which the CRC polynomial sees the bits); `order` maps a codeword
    position to the PDU bit position (identity for the PDUs whose check field simply follows the data)."""
    out = bits.copy()
    n = len(bits)
    order = order or list(range(n))
    if isinstance(start, (list, tuple)):  # scattered errors: the literal codeword positions listed (weight 2 and 3)
        for pos in start:
            out.invert(order[pos])
        return out
    if width == 1:
        out.invert(order[start])
        return out
    e = vc.bits(min(width, n - start), "err")
    vc.assume(vc.or_(*list(e)))
    for i in range(len(e)):
        out[order[start + i]] = out[order[start + i]] ^ e[i]
    return out


def fields_equal(vc, a, b, skip):
    return vc.and_(*[same(vc, getattr(a, f), getattr(b, f)) for f in sorted(vars(a)) if f not in skip])


@contract("DataHeader.detects_corruption", "okdmr.dmrlib.etsi.layer2.pdu.data_header:DataHeader.from_bits", ["C04"], stubs=CRCSTUB)
def header_detect(vc, kind, start, width):
    p = build_header(vc, kind)
    sent = p.as_bits()
    # the in-band 'CRC field 0 = please generate' sentinel: a received header whose CRC field is 0x0000 is re-signed instead
    # of checked.  That case is its own obligation (a recorded finding: the repository's tests pin the sentinel)
    name = "corrupted_header_rejected_flagged_or_unchanged"
    rx = corrupt(vc, sent, start, width)
    if vc.fork(vc.eq(vc.from_bits(rx.tolist()[80:96]), 0)):
        name += "_when_the_received_crc_is_0x0000"
    # the indicator is computed over the re-serialised fields, not over the received bits: when the corruption turns the
    # format field (bits 4..7) into another format, bits that format ignores lie outside the corrupted window and escape
    # the check - again its own obligation (a recorded finding), so that the same-format guarantee stays sharp
    if vc.fork(vc.not_(vc.eq(rx[4:8], sent[4:8]))):
        name += "_when_the_corruption_changes_the_format_field"
    try:
        q = DataHeader.from_bits(rx)
    except DOCUMENTED:
        vc.prove(name, True)
        return
    if q.crc_ok:
        vc.prove(name, type(q) is type(p) and fields_equal(vc, p, q, ("crc", "crc_ok")))
    else:
        vc.prove(name, True)


def _scattered(n, tier, seed, all_pairs_quick=False):
    """weight-2 and weight-3 patterns: CRC-CCITT (x+1 factor, period 32767) and the CRC-8 x^8+x^2+x+1 (x+1 factor, period 127)
    guarantee their detection at these lengths; the CRC-9 polynomial has no x+1 factor - not claimed there"""
    import itertools, random

    r = random.Random(seed)
    pairs = list(itertools.combinations(range(n), 2))
    if tier != "thorough" and not all_pairs_quick:
        pairs = r.sample(pairs, 40)
    triples = [sorted(r.sample(range(n), 3)) for _ in range(2000 if tier == "thorough" else 40)] if n > 40 else list(itertools.combinations(range(n), 3))
    if n <= 40 and tier != "thorough":
        triples = r.sample(triples, 200)
    return [list(x) for x in pairs] + [list(x) for x in triples]


def _detect_shapes(kinds, n, w, tier):
    for k in kinds:
        for s in range(n):
            yield dict(kind=k, start=s, width=1)
        starts = range(0, n - 1) if tier == "thorough" else sorted(set(range(0, n - 1, 8)) | {3, 10, n - w - 1, n - w, n - w + 1, n - 2})  # (every eighth position, two unaligned ones, the ends)
        for s in starts:
            yield dict(kind=k, start=s, width=w)


header_detect.shapes = lambda tier: list(_detect_shapes(DH_KINDS, 96, 16, tier)) + [dict(kind=k, start=e, width=0) for i, k in enumerate(DH_KINDS) for e in _scattered(96, tier, 40 + i)]
header_detect.cost = 5


@contract("PIHeader.detects_corruption", "okdmr.dmrlib.etsi.layer2.pdu.pi_header:PIHeader.from_bits", ["C04"], stubs=CRCSTUB)
def pi_detect(vc, kind, start, width):
    p = PIHeader(data=vc.bytes_(10, "d"))
    rx = corrupt(vc, p.as_bits(), start, width)
    q = PIHeader.from_bits(rx)
    if q.crc_ok:
        vc.prove("corrupted_header_rejected_flagged_or_unchanged", vc.eq(q.data, p.data))
    else:
        vc.prove("corrupted_header_rejected_flagged_or_unchanged", True)


pi_detect.shapes = lambda tier: list(_detect_shapes(("pi",), 96, 16, tier)) + [dict(kind="pi", start=e, width=0) for e in _scattered(96, tier, 39)]


@contract("ShortLinkControl.indicator", "okdmr.dmrlib.etsi.layer2.pdu.short_link_control:ShortLinkControl.from_bits", ["C04"], stubs=CRCSTUB)
def slc_indicator(vc, kind):
    """(1) the library's own serialisation parses back with crc_ok"""
    from contracts.pdu_common import enum_of

    if kind == "NullMessage":
        p = ShortLinkControl(slco=SLCOs.NullMessage)
    else:
        p = ShortLinkControl(slco=SLCOs.ActivityUpdate, ts1_activity_id=enum_of(vc, ActivityID, 4, "a1"), ts2_activity_id=enum_of(vc, ActivityID, 4, "a2"),
                             ts1_address=vc.bits(8, "h1"), ts2_address=vc.bits(8, "h2"))
    vc.prove("built_crc_ok", p.crc_ok)
    q = ShortLinkControl.from_bits(p.as_bits())
    vc.prove("parsed_back_crc_ok", q.crc_ok)


slc_indicator.shapes = lambda tier: [dict(kind="NullMessage"), dict(kind="ActivityUpdate")]


@contract("ShortLinkControl.detects_corruption", "okdmr.dmrlib.etsi.layer2.pdu.short_link_control:ShortLinkControl.from_bits", ["C04"], stubs=CRCSTUB)
def slc_detect(vc, kind, start, width):
    from contracts.pdu_common import enum_of

    p = ShortLinkControl(slco=SLCOs.ActivityUpdate, ts1_activity_id=enum_of(vc, ActivityID, 4, "a1"), ts2_activity_id=enum_of(vc, ActivityID, 4, "a2"),
                         ts1_address=vc.bits(8, "h1"), ts2_address=vc.bits(8, "h2"))
    sent = p.as_bits()
    name = "corrupted_short_lc_rejected_flagged_or_unchanged"
    rx = corrupt(vc, sent, start, width, list(range(28)) + list(range(35, 27, -1)))  # CRC-8 is carried LSB first
    if vc.fork(vc.eq(vc.from_bits(rx.tolist()[28:36]), 0)):
        name += "_when_the_received_crc_is_0x00"  # sentinel, as for the data header
    undefined = (4, 5, 6, 7, 14, 15)  # activity id values the element folds to 'Reserved' (re-serialised as 0001)
    a1, a2 = vc.from_bits(rx.tolist()[4:8]), vc.from_bits(rx.tolist()[8:12])
    if vc.fork(vc.or_(*[vc.eq(a, u) for a in (a1, a2) for u in undefined])):
        name += "_when_a_received_activity_id_is_undefined"  # CRC is checked over the folded value, not the received bits
    try:
        q = ShortLinkControl.from_bits(rx)
    except DOCUMENTED:
        vc.prove(name, True)
        return
    if q.crc_ok:
        vc.prove(name, fields_equal(vc, p, q, ("crc_8bit", "crc_ok")))
    else:
        vc.prove(name, True)


slc_detect.shapes = lambda tier: list(_detect_shapes(("au",), 36, 8, "thorough")) + [dict(kind="au", start=e, width=0) for e in _scattered(36, tier, 38, all_pairs_quick=True)]


@contract("RateData.detects_corruption", "okdmr.dmrlib.etsi.layer2.pdu.rate12_data:Rate12Data.from_bits_typed", ["C04"], stubs=CRCSTUB,
          note="confirmed data blocks of the three rates (CRC-9)")
def rate_detect(vc, kind, start, width):
    rate, typ = kind.split(".")
    cls, types, nbits = RATES[rate]
    t = types[typ]
    kw = dict(dbsn=vc.uint(7, "sn"))
    if "Last" in typ:
        kw["crc32"] = vc.uint(32, "c32")
    p = cls(data=vc.bytes_(t.value, "d"), packet_type=t, **kw)
    # codeword order of a confirmed block (B.3.10): data octets, [the 32-bit CRC of a last block], 7-bit serial number, then
    # the CRC-9 most significant bit first; in the PDU: serial number (bits 0..6), CRC-9 least significant bit first
    # (bits 7..15), data, [CRC-32]
    order = list(range(16, nbits)) + list(range(0, 7)) + list(range(15, 6, -1))
    rx = corrupt(vc, p.as_bits(), start, width, order)
    name = "corrupted_block_flagged_or_unchanged"
    if "Last" in typ and vc.fork(vc.or_(vc.eq(vc.from_bits(rx.tolist()[nbits - 32:]), 0), vc.eq(kw["crc32"], 0))):
        name += "_when_the_sent_or_received_crc32_is_0"  # a CRC-32 of 0 is treated as 'absent' and left out of the CRC-9
    q = cls.from_bits_typed(rx, t)
    if q.crc9_ok:
        vc.prove(name, fields_equal(vc, p, q, ("crc9", "crc9_ok")))
    else:
        vc.prove(name, True)


def _rate_detect_shapes(tier):
    for rate, (cls, types, nbits) in RATES.items():
        for typ in ("Confirmed", "ConfirmedLastBlock"):
            yield from _detect_shapes((rate + "." + typ,), nbits, 9, tier)


rate_detect.shapes = lambda tier: list(_rate_detect_shapes(tier))
