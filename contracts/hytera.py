"""C12: Hytera application PDUs (RRS, LP, TMP, RCP) and their HRNP / HSTRP wrappers.

Functions under contract: HDAP.as_bytes / __len__ / get_hdap_checksum / get_reliable_and_service / from_bytes,
RadioRegistrationService / LocationProtocol / TextMessageProtocol / RadioControlProtocol .get_opcode / get_payload / from_bytes,
RadioIP.as_bytes / from_bytes, HRNP.as_bytes / from_bytes / __len__ / verify_checksum, HSTRP.as_bytes / from_bytes,
HSTRPPacketType / HSTRPOptions .as_bytes / from_bytes / __len__.

The two checksum functions are verified once, on word-level octets (integer variables, linear integer arithmetic in z3 - no
loop is cut, so the proof does not depend on how the sums are written), against independent specifications; every frame
contract then sees them through stubs that return an abstract checksum value recorded against the octets it was computed
over (ghost), so 'the checksum field is the checksum of exactly opcode..payload' is a lookup, not a re-computation.
GPS text fields and str -> UTF-16 conversion are float / string formatting: bounded native enumeration (labelled bounded)."""
from datetime import date, time
from pyvc.contract import contract, stub, current_vc, PathEnd
from contracts.pdu_common import same, compare_fields, enum_of, spread
from spec import hytera as S
from okdmr.dmrlib.etsi.layer3.elements.talker_alias_data_format import TalkerAliasDataFormat
from okdmr.dmrlib.hytera.pdu.hdap import HDAP, HyteraServiceType
from okdmr.dmrlib.hytera.pdu.hrnp import HRNP, HRNPOpcodes
from okdmr.dmrlib.hytera.pdu.hstrp import HSTRP, HSTRPPacketType, HSTRPOptions, HSTRPOptionType
from okdmr.dmrlib.hytera.pdu.radio_ip import RadioIP
from okdmr.dmrlib.hytera.pdu.radio_registration_service import RadioRegistrationService, RRSTypes, RRSResult, RRSRadioState
from okdmr.dmrlib.hytera.pdu.location_protocol import LocationProtocol, LocationProtocolSpecificService, GPSData
from okdmr.dmrlib.hytera.pdu.text_message_protocol import TextMessageProtocol, TMPService, TMPResultCodes
from okdmr.dmrlib.hytera.pdu.radio_control_protocol import (RadioControlProtocol, RCPOpcode, RCPCallType, RCPResult, RadioIpIdTarget, RepeaterMode,
                                                             RepeaterStatus, RepeaterServiceType, StatusChangeNotificationTargets,
                                                             StatusChangeNotificationSetting)

_real_hdap_ck = HDAP.__dict__["get_hdap_checksum"].__func__
_real_hrnp_ck = HRNP.__dict__["verify_checksum"]


# ---------------------------------------------------------------------------------------------- helpers
def _concrete(b):
    return isinstance(b, (bytes, bytearray))


def _same_octets(a, b):
    """syntactic equality (under the path condition) of two octet strings of the engine"""
    from pyvc import core
    from pyvc.values import SInt, bitpoly

    a, b = list(a), list(b)
    if len(a) != len(b):
        return False
    for x, y in zip(a, b):
        if isinstance(x, int) and isinstance(y, int):
            if x != y:
                return False
            continue
        x, y = SInt.lift(x), SInt.lift(y)
        for i in range(8):
            if core.norm_under_pc(bitpoly(x.bit(i))) != core.norm_under_pc(bitpoly(y.bit(i))):
                return False
    return True


def _havoc_octets(vc, n):
    from pyvc.values import SBytes

    return SBytes([vc.from_bits(vc.havoc_bits(8).tolist()) for _ in range(n)])


def octs(*xs):
    """octet string of int-likes (the builtin bytes() would concretise symbolic ints)"""
    out = b""
    for x in xs:
        out = out + (bytes([x]) if type(x) is int else x.to_bytes(1, "big"))
    return out


def be_int(b):
    """big-endian value of an octet string (the builtin int.from_bytes would concretise symbolic octets)"""
    z = getattr(b, "zsrc", None)
    if z is not None and z[1] == "big":
        return z[0]  # the octets were produced from this word
    v = 0
    for x in list(b):
        v = v * 256 + x
    return v


def _bits8(vc, x):
    return vc.bitlist(x, 8, msb_first=False)


# ---------------------------------------------------------------------------------------------- HDAP checksum
@stub("HDAP.get_hdap_checksum", "okdmr.dmrlib.hytera.pdu.hdap:HDAP.get_hdap_checksum", provided_by="HDAP.get_hdap_checksum.word_level")
def hdap_ck_by_contract(checked_data):
    """what callers see: ONE octet, a function of the checked octets [contract HDAP.get_hdap_checksum: the octet c with
    c + sum(checked octets) = 0x32 mod 256].  The value is abstract (fresh atoms); the ghost record ties it to its argument."""
    vc = current_vc()
    if _concrete(checked_data):  # literal contents: nothing to abstract
        return _real_hdap_ck(checked_data)
    for arg, ck in vc.ghost.get("hdap_ck", []):
        if _same_octets(arg, checked_data):
            return ck
    ck = _havoc_octets(vc, 1)
    vc.ghost.setdefault("hdap_ck", []).append((checked_data, ck))
    return ck


def CK(vc, data):
    """the HDAP checksum octet of data: independent computation natively, ghost lookup symbolically (None: no such record)"""
    if vc.mode == "native" or _concrete(data):
        return bytes([S.hdap_checksum(bytes(data))])
    for arg, ck in vc.ghost.get("hdap_ck", []):
        if _same_octets(arg, data):
            return ck
    return None


@contract("HDAP.get_hdap_checksum.word_level", "okdmr.dmrlib.hytera.pdu.hdap:HDAP.get_hdap_checksum", ["C12"],
          note="the same function on WORD-LEVEL octets (each octet an integer variable 0..255, linear integer arithmetic in z3): no loop is cut, so the proof does not depend on how the sum is written")
def hdap_checksum_words(vc, n):
    if vc.mode == "native":
        d = vc.bytes_(n, "d")
        r = HDAP.get_hdap_checksum(d)
        vc.prove("checksum_plus_sum_is_0x32_mod_256", len(r) == 1 and (r[0] + sum(d)) % 256 == 0x32)
        return
    from pyvc.zint import ZBytes

    xs = [vc.nat("d%d" % i, bits=8, hi=255) for i in range(n)]
    vc.realise = lambda w: dict(w, d={"hex": bytes(int(w["d%d" % i]) & 255 for i in range(n)).hex()})
    r = HDAP.get_hdap_checksum(ZBytes(xs))
    total = 0
    for x in xs:
        total = x + total
    vc.prove("returns_one_octet", len(r) == 1)
    c = r[0]
    vc.prove("checksum_is_an_octet", vc.and_(c >= 0, c <= 255) if not isinstance(c, int) else 0 <= c <= 255)
    vc.prove("checksum_plus_sum_is_0x32_mod_256", ((c + total) % 256) == 0x32)


hdap_checksum_words.shapes = lambda tier: [dict(n=n) for n in ((0, 1, 2, 9, 64, 300) if tier == "quick" else (0, 1, 2, 3, 9, 64, 65, 300, 1000))]




# ---------------------------------------------------------------------------------------------- builders
def rip(vc, name):
    return RadioIP(radio_id=vc.uint(24, name), subnet=vc.uint(8, name + "_net"))


def _flag(vc, name):
    return vc.fork(vc.flag(name))  # a plain bool, as the constructors store it


def build_rrs(vc, kind):
    op = RRSTypes[kind]
    kw = dict(opcode=op, is_reliable=_flag(vc, "rel"), radio_ip=rip(vc, "ip"))
    if kind == "RadioRegistrationAnswer":
        kw["result"] = enum_of(vc, RRSResult, 2, "res")
        t = vc.uint(16, "renew")
        vc.assume(vc.and_(vc.not_(vc.eq(t, 0)), vc.not_(vc.eq(t, 0xFFFF))))
        kw["renew_time_seconds"] = t
    if kind == "RegistrationStatusCheckAnswer":
        kw["radio_state"] = enum_of(vc, RRSRadioState, 1, "st")
    return RadioRegistrationService(**kw), dict(service=HyteraServiceType.RRS, opcode=bytes([0, op.value]), endian="big")


GPS_SAMPLE = dict(valid="A", t="010203", d="060524", ns="N", lat=4807.038, ew="E", lon=1131.0, speed=0.5, direction=84)


def make_gps(valid, t, d, ns, lat, ew, lon, speed, direction):
    return GPSData(data_valid=valid, greenwich_time=b"\x00" * 6 if t is None else time(int(t[0:2]), int(t[2:4]), int(t[4:6])),  # (six NUL octets: no time)
                   greenwich_date=b"\x00" * 6 if d is None else date(2000 + int(d[4:6]), int(d[2:4]), int(d[0:2])),
                   north_south=ns, latitude=float(lat), east_west=ew, longitude=float(lon), speed_knots=float(speed), direction=int(direction))


def build_lp(vc, kind, gps=None):
    op = LocationProtocolSpecificService[kind]
    kw = dict(opcode=op, is_reliable=_flag(vc, "rel"), request_id=vc.uint(32, "rid"), radio_ip=rip(vc, "ip"))
    if kind == "StandardReport":
        kw["result"] = vc.pick("res", [0, 6, 105], 8)
        kw["gpsdata"] = make_gps(**(gps or GPS_SAMPLE))
    return LocationProtocol(**kw), dict(service=HyteraServiceType.LP, opcode=op.value.to_bytes(2, "big"), endian="big")


TMP_KINDS = ["SendPrivateMessage", "SendGroupMessage", "SendPrivateMessageAck", "SendGroupMessageAck", "PrivateShortData", "PrivateShortDataAck", "GroupShortData", "GroupShortDataAck"]


def build_tmp(vc, kind, opt=None, n=0, text=None):
    """opt: None (no option field) or the option data length; n: text / short data length in octets"""
    op = TMPService[kind]
    conf = _flag(vc, "conf")
    kw = dict(opcode=op, is_reliable=_flag(vc, "rel"), is_confirmed=conf, has_option=opt is not None, request_id=vc.uint(32, "rid"), destination_ip=rip(vc, "dst"))
    if opt is not None:
        kw["option_data"] = vc.bytes_(opt, "opt")
    if kind not in ("SendGroupMessageAck", "GroupShortDataAck"):
        kw["source_ip"] = rip(vc, "src")
    if kind in ("SendPrivateMessage", "SendGroupMessage"):
        kw["text_data"] = text if text is not None else vc.bytes_(n, "text")
    elif kind in ("PrivateShortData", "GroupShortData"):
        kw["short_data"] = vc.bytes_(n, "sd")
    else:
        kw["result_code"] = enum_of(vc, TMPResultCodes, 4, "rc")
    return TextMessageProtocol(**kw), dict(service=HyteraServiceType.TMP, opcode=bytes([(0x80 if conf else 0) | (0x40 if opt is not None else 0), op.value]), endian="big")


RCP_KINDS = ["UnknownService", "CallRequest", "CallReply", "RepeaterBroadcastTransmitStatus", "BroadcastMessageConfigurationRequest", "BroadcastMessageConfigurationReply",
             "RadioIDAndRadioIPQueryRequest", "RadioIDAndRadioIPQueryReply", "BroadcastStatusConfigurationRequest", "BroadcastStatusConfigurationReply", "SendTalkerAliasRequest",
             "SendTalkerAliasReply", "ZoneAndChannelOperationRequest", "ZoneAndChannelOperationReply", "StatusChangeNotificationRequest", "StatusChangeNotificationReply",
             "RadioStatusReport"]
SCN_TARGETS = ["SPK", "ZONE", "RADIO_RESET", "NONE"]


def build_rcp(vc, kind, n=0, raw_opcode="3412"):
    op = RCPOpcode[kind]
    kw = dict(opcode=op, is_reliable=_flag(vc, "rel"))
    opcode = op.value.to_bytes(2, "little")
    if kind == "UnknownService":
        # an opcode outside the enumeration keeps its two octets and its payload untouched
        kw.update(raw_opcode=bytes.fromhex(raw_opcode), raw_payload=vc.bytes_(n, "raw"))
        opcode = bytes.fromhex(raw_opcode)
    elif kind == "CallRequest":
        kw.update(call_type=enum_of(vc, RCPCallType, 4, "ct"), target_id=vc.uint(32, "tgt"))
    elif kind in ("CallReply", "BroadcastMessageConfigurationReply", "BroadcastStatusConfigurationReply", "StatusChangeNotificationReply"):
        kw.update(result=enum_of(vc, RCPResult, 1, "res"))
    elif kind == "RepeaterBroadcastTransmitStatus":
        kw.update(repeater_mode=enum_of(vc, RepeaterMode, 1, "mode"), repeater_status=enum_of(vc, RepeaterStatus, 4, "status"),
                  repeater_service_type=enum_of(vc, RepeaterServiceType, 5, "svc"), call_type=enum_of(vc, RCPCallType, 4, "ct"), target_id=vc.uint(32, "tgt"), sender_id=vc.uint(32, "snd"))
    elif kind == "BroadcastMessageConfigurationRequest":
        kw.update(broadcast_type=vc.uint(8, "bt"))
    elif kind == "RadioIDAndRadioIPQueryRequest":
        kw.update(target=enum_of(vc, RadioIpIdTarget, 1, "t"))
    elif kind == "RadioIDAndRadioIPQueryReply":
        kw.update(result=enum_of(vc, RCPResult, 1, "res"), target=enum_of(vc, RadioIpIdTarget, 1, "t"), raw_value=vc.bytes_(4, "val"))
    elif kind == "BroadcastStatusConfigurationRequest":
        kw.update(broadcast_config_raw=bytes([n]) + vc.bytes_(2 * n, "cfg"))
    elif kind == "SendTalkerAliasRequest":
        kw.update(call_type=enum_of(vc, RCPCallType, 4, "ct"), sender_id=vc.uint(32, "snd"), target_id=vc.uint(32, "tgt"),
                  talker_alias_format=enum_of(vc, TalkerAliasDataFormat, 2, "fmt"), talker_alias_data=vc.bytes_(n, "alias"))
    elif kind == "SendTalkerAliasReply":
        kw.update(result=enum_of(vc, RCPResult, 1, "res"), call_type=enum_of(vc, RCPCallType, 4, "ct"), sender_id=vc.uint(32, "snd"), target_id=vc.uint(32, "tgt"))
    elif kind == "ZoneAndChannelOperationRequest":
        kw.update(raw_payload=vc.bytes_(5, "raw"))
    elif kind == "ZoneAndChannelOperationReply":
        kw.update(raw_payload=vc.bytes_(n, "raw"))
    elif kind == "StatusChangeNotificationRequest":
        kw.update(status_change_settings={StatusChangeNotificationTargets[t]: enum_of(vc, StatusChangeNotificationSetting, 2, "set%d" % i) for i, t in enumerate(SCN_TARGETS[:n])})
    elif kind == "RadioStatusReport":
        kw.update(status_change_target=enum_of(vc, StatusChangeNotificationTargets, 5, "t"), status_change_value=vc.uint(16, "v"))
    return RadioControlProtocol(**kw), dict(service=HyteraServiceType.RCP, opcode=opcode, endian="little")


def build(vc, family, kind, **kw):
    return {"RRS": build_rrs, "LP": build_lp, "TMP": build_tmp, "RCP": build_rcp}[family](vc, kind, **kw)


# ---------------------------------------------------------------------------------------------- HDAP frames
def frame_clauses(vc, p, want, raw):
    n = len(raw) - 7
    vc.prove("frame_has_at_least_the_7_framing_octets", n >= 0)
    vc.prove("service_octet_with_reliable_flag", vc.eq(raw[0], want["service"].value | (0x80 if p.is_reliable else 0)))
    vc.prove("opcode_octets", vc.eq(raw[1:3], want["opcode"]))
    vc.prove("length_field_is_the_payload_length_in_protocol_endianness", vc.eq(raw[3:5], n.to_bytes(2, want["endian"])))
    ck = CK(vc, raw[1:-2])
    vc.prove("checksum_is_that_of_opcode_length_payload", ck is not None and vc.eq(raw[-2:-1], ck))
    vc.prove("terminator_0x03", vc.eq(raw[-1], 3))
    vc.prove("reported_length_is_the_number_of_octets", len(p) == len(raw))


@contract("HDAP.as_bytes", "okdmr.dmrlib.hytera.pdu.hdap:HDAP.as_bytes", ["C12", "C19"], stubs=["HDAP.get_hdap_checksum"])
def hdap_frame(vc, family, kind, **kw):
    p, want = build(vc, family, kind, **kw)
    raw = p.as_bytes()
    frame_clauses(vc, p, want, raw)
    q = HDAP.from_bytes(raw)
    compare_fields(vc, p, q)
    vc.prove("reserialises_to_the_same_octets", vc.eq(q.as_bytes(), raw))


def _frame_shapes(tier):
    T = tier != "quick"
    out = [dict(family="RRS", kind=k.name) for k in RRSTypes]
    out += [dict(family="LP", kind="StandardRequest"), dict(family="LP", kind="StandardReport")]
    for k in TMP_KINDS:
        sizes = (0, 2, 24, 300) if T else (0, 6)
        for opt in ((None, 0, 1, 5, 64) if T else (None, 0, 3)):
            for n in (sizes if k in ("SendPrivateMessage", "SendGroupMessage", "PrivateShortData", "GroupShortData") else (0,)):
                out.append(dict(family="TMP", kind=k, opt=opt, n=n))
    for k in RCP_KINDS:
        if k == "UnknownService":
            out += [dict(family="RCP", kind=k, n=n, raw_opcode=o) for n in ((0, 1, 7, 300) if T else (0, 7)) for o in ("3412", "ffff", "0100")]
        elif k in ("BroadcastStatusConfigurationRequest", "StatusChangeNotificationRequest"):
            out += [dict(family="RCP", kind=k, n=n) for n in (0, 1, 3)]
        elif k in ("SendTalkerAliasRequest", "ZoneAndChannelOperationReply"):
            out += [dict(family="RCP", kind=k, n=n) for n in ((0, 1, 12, 31, 255) if T else (0, 12))]
        else:
            out.append(dict(family="RCP", kind=k))
    return out


hdap_frame.shapes = _frame_shapes
hdap_frame.cost = 5

NEST = [dict(family="RRS", kind="RadioRegistrationRequest"), dict(family="RRS", kind="RadioRegistrationAnswer"), dict(family="RCP", kind="CallRequest"),
        dict(family="TMP", kind="SendPrivateMessage", opt=None, n=5), dict(family="TMP", kind="SendGroupMessage", opt=2, n=4), dict(family="LP", kind="StandardRequest")]


def _nest(tier):
    return _frame_shapes("quick") if tier != "quick" else NEST


# ---------------------------------------------------------------------------------------------- HRNP checksum
class AnyHDAP(HDAP):
    """some HDAP message of n octets (the HRNP layer only asks for its octets and their number)"""

    def __init__(self, content):
        super().__init__(is_reliable=False)
        self._content = content

    def as_bytes(self, endian="big"):
        return self._content

    def __len__(self):
        return len(self._content)


def hrnp_checked_octets(h):
    """SPEC of what the HRNP checksum covers: the 10 header octets without the checksum field (length field = 12 + payload
    length), then the payload, zero padded to an even number of octets"""
    body = h.data.as_bytes() if h.opcode == HRNPOpcodes.DATA else b""
    total = 12 + len(body)
    cd = h.header + h.version + octs(h.block_number, h.opcode.value, h.source, h.destination) + h.packet_number.to_bytes(2, "big") + total.to_bytes(2, "big") + body
    return cd + (b"\x00" if len(cd) % 2 else b"")


@stub("HRNP.verify_checksum", "okdmr.dmrlib.hytera.pdu.hrnp:HRNP.verify_checksum", provided_by="HRNP.verify_checksum.word_level")
def hrnp_ck_by_contract(self, checksum=b"\x00\x00"):
    """what callers see: (given checksum == c, c as 2 octets) where c is a function of the checked octets of self [contract
    HRNP.verify_checksum: the ones-complement of their ones-complement 16-bit sum]; abstract value + ghost record"""
    vc = current_vc()
    cd = hrnp_checked_octets(self)
    if _concrete(cd):
        return _real_hrnp_ck(self, checksum)
    ck = None
    for arg, c in vc.ghost.get("hrnp_ck", []):
        if _same_octets(arg, cd):
            ck = c
    if ck is None:
        ck = _havoc_octets(vc, 2)
        vc.ghost.setdefault("hrnp_ck", []).append((cd, ck))
    given = checksum if not hasattr(checksum, "__len__") else be_int(checksum)
    return vc.eq(be_int(ck), given), ck


def HCK(vc, covered):
    """the HRNP checksum (2 octets) over the covered octets: independent computation natively, ghost lookup symbolically"""
    if vc.mode == "native" or _concrete(covered):
        return S.ones_complement16(bytes(covered)).to_bytes(2, "big")
    covered = covered + (b"\x00" if len(covered) % 2 else b"")
    for arg, c in vc.ghost.get("hrnp_ck", []):
        if _same_octets(arg, covered):
            return c
    return None


def bare_hrnp(vc, opcode, n):
    h = HRNP.__new__(HRNP)  # (the constructor itself calls verify_checksum)
    h.header, h.version = vc.bytes_(1, "hdr"), vc.bytes_(1, "ver")
    h.block_number, h.source, h.destination, h.packet_number = vc.uint(8, "blk"), vc.uint(8, "src"), vc.uint(8, "dst"), vc.uint(16, "pn")
    h.opcode = HRNPOpcodes[opcode]
    h.data = AnyHDAP(vc.bytes_(n, "d")) if opcode == "DATA" else None
    return h


@contract("HRNP.verify_checksum.word_level", "okdmr.dmrlib.hytera.pdu.hrnp:HRNP.verify_checksum", ["C12", "C04"],
          note="the same function on WORD-LEVEL fields and octets (integer variables, linear integer arithmetic in z3): no loop is cut")
def hrnp_checksum_words(vc, opcode, n, given):
    if vc.mode == "native":
        h = bare_hrnp(vc, opcode, n)
        arg = vc.bytes_(2, "given") if given == "bytes" else vc.uint(16, "given")
        ok, ck = h.verify_checksum(arg)
        want = S.ones_complement16(hrnp_checked_octets(h))
        vc.prove("checksum_is_the_ones_complement_of_the_folded_word_sum", ck == want.to_bytes(2, "big"))
        vc.prove("flag_is_equality_with_the_given_checksum", ok == (want == (arg if isinstance(arg, int) else int.from_bytes(arg, "big"))))
        return
    from pyvc.zint import ZBytes

    o = lambda name: vc.nat(name, bits=8, hi=255)
    h = HRNP.__new__(HRNP)
    hdr, ver, blk, src, dst = o("hdr"), o("ver"), o("blk"), o("src"), o("dst")
    pn = vc.nat("pn", bits=16, hi=0xFFFF)
    h.header, h.version = ZBytes([hdr]), ZBytes([ver])
    h.block_number, h.source, h.destination, h.packet_number = blk, src, dst, pn
    h.opcode = HRNPOpcodes[opcode]
    nd = n if opcode == "DATA" else 0
    d = [o("d%d" % i) for i in range(nd)]
    h.data = AnyHDAP(ZBytes(d)) if opcode == "DATA" else None
    g = vc.nat("given", bits=16, hi=0xFFFF)
    arg = g if given == "int" else ZBytes([g >> 8, g & 0xFF])

    def realise(w):
        w = dict(w)
        for k in ("hdr", "ver"):
            w[k] = {"hex": "%02x" % int(w[k])}
        w["d"] = {"hex": bytes(int(w.get("d%d" % i, 0)) for i in range(nd)).hex()}
        if given == "bytes":
            w["given"] = {"hex": "%04x" % int(w["given"])}
        return w

    vc.realise = realise
    ok, ck = h.verify_checksum(arg)
    # SPEC: big-endian 16-bit words of header (length field = 12 + payload length) and payload, zero padded
    octets = [hdr, ver, blk, h.opcode.value, src, dst, pn >> 8, pn & 0xFF, (12 + nd) >> 8, (12 + nd) & 0xFF] + d + ([0] if nd % 2 else [])
    total = 0
    for i in range(0, len(octets), 2):
        total = octets[i] * 256 + octets[i + 1] + total
    if vc.fork(total == 0):
        want = 0xFFFF
    else:
        want = 0xFFFF - ((total - 1) % 0xFFFF + 1)
    got = be_int(ck)
    vc.prove("returns_two_octets", len(ck) == 2)
    vc.prove("checksum_is_the_ones_complement_of_the_folded_word_sum", got == want)
    vc.prove("flag_is_equality_with_the_given_checksum", vc.iff(ok, got == g))


hrnp_checksum_words.shapes = lambda tier: [dict(opcode=o_, n=n, given=("int", "bytes")[(n + i) % 2]) for i, (o_, n) in enumerate(
    [("DATA", n) for n in ((0, 1, 2, 7, 40, 301) if tier == "quick" else (0, 1, 2, 3, 7, 8, 40, 41, 300, 301, 1001))] + [("CONNECT", 0), ("DATA_ACK", 0), ("CLOSE", 0)])]




# ---------------------------------------------------------------------------------------------- HRNP frames
@contract("HRNP.as_bytes", "okdmr.dmrlib.hytera.pdu.hrnp:HRNP.as_bytes", ["C12", "C19", "C04"], stubs=["HRNP.verify_checksum", "HDAP.get_hdap_checksum"])
def hrnp_frame(vc, opcode, inner=None, anylen=None):
    data, inner_raw = None, b""
    if opcode == "DATA":
        if anylen is not None:  # serialisation side for ANY nested message of that many octets
            data = AnyHDAP(vc.bytes_(anylen, "d"))
        else:
            data = build(vc, **inner)[0]
        inner_raw = data.as_bytes()
    ver = vc.bytes_(1, "ver")
    blk, src, dst, pn = vc.uint(8, "blk"), vc.uint(8, "hsrc"), vc.uint(8, "hdst"), vc.uint(16, "pn")
    p = HRNP(data=data, opcode=HRNPOpcodes[opcode], source=src, destination=dst, block_number=blk, packet_number=pn, version=ver)
    raw = p.as_bytes()
    vc.prove("header_octets", vc.eq(raw[0:8], b"\x7e" + ver + octs(blk, HRNPOpcodes[opcode].value, src, dst) + pn.to_bytes(2, "big")))
    vc.prove("length_field_is_the_number_of_octets", vc.eq(raw[8:10], len(raw).to_bytes(2, "big")) and len(raw) == 12 + len(inner_raw))
    vc.prove("reported_length_is_the_number_of_octets", len(p) == len(raw))
    ck = HCK(vc, raw[:10] + raw[12:])
    vc.prove("checksum_field_is_that_of_header_and_payload", ck is not None and vc.eq(raw[10:12], ck))
    vc.prove("payload_is_the_nested_frame", vc.eq(raw[12:], inner_raw))
    if anylen is not None:
        return
    q = HRNP.from_bytes(raw)
    compare_fields(vc, p, q, skip=("checksum_correct",))  # (an indicator about the constructor's checksum argument)
    vc.prove("parsed_checksum_verifies", q.checksum_correct)
    vc.prove("reserialises_to_the_same_octets", vc.eq(q.as_bytes(), raw))


def _hrnp_shapes(tier):
    out = [dict(opcode=o.name) for o in HRNPOpcodes if o.name != "DATA"]
    out += [dict(opcode="DATA", inner=i) for i in _nest(tier)]
    out += [dict(opcode="DATA", anylen=n) for n in ((7, 8, 60) if tier == "quick" else (7, 8, 9, 60, 301, 1000))]
    return out


hrnp_frame.shapes = _hrnp_shapes
hrnp_frame.cost = 5

# ---------------------------------------------------------------------------------------------- HSTRP frames
HSTRP_KINDS = {"data": dict(have_options=True), "plain": dict(), "ack": dict(is_ack=True), "connect": dict(is_connect=True), "close": dict(is_close=True),
               "heartbeat": dict(is_heartbeat=True), "reject": dict(is_reject=True), "connect_ack": dict(is_connect=True, is_ack=True)}
OPTION_LISTS = [(("DeviceID", 4), ("ChannelID", 1)), (("RTP", 0),), (("DeviceID", 4),), (("XPTSiteID", 1), ("XPTIndex", 1), ("XPTChannelType", 1)), (("ChannelID", 0), ("DeviceID", 7)),
                # 'any option list': the same option type more than once (the symbolic contents may coincide or differ)
                (("ChannelID", 1), ("DeviceID", 4), ("ChannelID", 1)), (("RTP", 0), ("RTP", 0)), (("XPTIndex", 1), ("XPTIndex", 1), ("XPTIndex", 1))]


@contract("HSTRP.as_bytes", "okdmr.dmrlib.hytera.pdu.hstrp:HSTRP.as_bytes", ["C12", "C19", "C17"], stubs=["HDAP.get_hdap_checksum"])
def hstrp_frame(vc, kind, opts=(), inner=None):
    """precondition (in-range): the option flag of the type octet is set exactly when the option list is not empty - a
    set flag with an empty list has no representation in the format (the parser reads the payload as options)"""
    flags = dict(HSTRP_KINDS[kind])
    flags["have_options"] = len(opts) > 0
    payload = build(vc, **inner)[0] if inner is not None else None
    inner_raw = payload.as_bytes() if payload is not None else b""
    o = HSTRPOptions()
    chain = b""
    for i, (t, n) in enumerate(opts):
        d = vc.bytes_(n, "o%d" % i)
        o.add_option(HSTRPOptionType[t], d)
        chain = chain + bytes([HSTRPOptionType[t].value | (0x80 if i < len(opts) - 1 else 0), n]) + d
    sn, ver = vc.uint(16, "sn"), vc.uint(8, "ver")
    p = HSTRP(pkt_type=HSTRPPacketType(**flags), sn=sn, options=o, payload=payload, version=ver)
    raw = p.as_bytes()
    tbyte = sum(v for k, v in dict(have_options=0x20, is_reject=0x10, is_close=0x08, is_connect=0x04, is_heartbeat=0x02, is_ack=0x01).items() if flags.get(k))
    vc.prove("header_version_type_and_sequence_number", vc.eq(raw[0:6], b"2B" + octs(ver, tbyte) + sn.to_bytes(2, "big")))
    vc.prove("option_chain_with_continuation_bits_and_lengths", vc.eq(raw[6:6 + len(chain)], chain) and len(o) == len(chain))
    vc.prove("payload_is_the_nested_frame", vc.eq(raw[6 + len(chain):], inner_raw))
    q = HSTRP.from_bytes(raw)
    compare_fields(vc, p, q)
    vc.prove("reserialises_to_the_same_octets", vc.eq(q.as_bytes(), raw))


def _hstrp_shapes(tier):
    out = [dict(kind=k) for k in HSTRP_KINDS if k not in ("data", "plain")]
    nest = _nest(tier)
    for i, inner in enumerate(nest):
        out.append(dict(kind="plain", inner=inner))
        for j, ol in enumerate(OPTION_LISTS):
            if tier != "quick" or (i + j) % 3 == 0 or (j >= 5 and i < 2):
                out.append(dict(kind="data", opts=[list(x) for x in ol], inner=inner))
    out.append(dict(kind="ack", inner=nest[0]))
    # messages that END with their option chain (no application payload), incl. chains whose last option is empty
    for ol in OPTION_LISTS:
        out.append(dict(kind="data", opts=[list(x) for x in ol]))
        out.append(dict(kind="connect", opts=[list(x) for x in ol]))
    return out


hstrp_frame.shapes = _hstrp_shapes
hstrp_frame.cost = 5


# ---------------------------------------------------------------------------------------------- bounded parts
@contract("GPSData.as_bytes", "okdmr.dmrlib.hytera.pdu.location_protocol:GPSData.as_bytes", ["C12"], bounded=True,
          note="float / strftime text formatting is outside the engine: literal values on the representable grid of the fixed-width fields")
def gps_block(vc, **g):
    p = make_gps(**g)
    raw = p.as_bytes()
    vc.prove("gps_block_is_40_octets", len(raw) == 40)
    q = GPSData.from_bytes(raw)
    compare_fields(vc, p, q)
    vc.prove("reserialises_to_the_same_octets", q.as_bytes() == raw)
    lp = LocationProtocol(opcode=LocationProtocolSpecificService.StandardReport, request_id=vc.uint(32, "rid"), radio_ip=rip(vc, "ip"), result=0, gpsdata=p, is_reliable=True)
    fr = lp.as_bytes()
    frame_clauses(vc, lp, dict(service=HyteraServiceType.LP, opcode=b"\xa0\x02", endian="big"), fr)
    vc.prove("report_frame_is_57_octets", len(fr) == 57)
    back = HDAP.from_bytes(fr)
    compare_fields(vc, lp, back, prefix="report_field.")
    vc.prove("report_reserialises_to_the_same_octets", back.as_bytes() == fr)


def _gps_shapes(tier):
    axes = dict(valid=["A", "V"], t=["010203", None, "000000", "235959"], d=["060524", None, "010100", "311299", "290224"], ns=["N", "S"],
                lat=[4807.038, 0.0, 0.0001, 1.5, 8959.9999, 9000.0], ew=["E", "W"], lon=[1131.0, 0.0, 0.0001, 17959.9999, 18000.0],
                speed=[0.5, 0.0, 0.1, 5.0, 9.9, 10.0, 12.0, 57.0, 99.0, 100.0, 655.0, 999.0], direction=[84, 0, 1, 9, 10, 99, 100, 359])
    base = {k: v[0] for k, v in axes.items()}
    out = [dict(base)]
    for k, vs in axes.items():  # one factor at a time
        out += [dict(base, **{k: v}) for v in vs[1:]]
    import random

    r = random.Random(12)
    for _ in range(60 if tier == "quick" else 3000):  # plus seeded combinations
        out.append({k: r.choice(v) for k, v in axes.items()})
    return out


gps_block.shapes = _gps_shapes
gps_block.native_all = True

TEXTS = ["", "A", "Hello world", "žluťoučký kůň", "紧急通知：三号站点发生故障", "emoji \U0001F600 pair", "x" * 200, "紧" * 96]


@contract("TextMessageProtocol.text_as_str", "okdmr.dmrlib.hytera.pdu.text_message_protocol:TextMessageProtocol.__init__", ["C12"], bounded=True,
          note="str -> UTF-16-LE conversion is string handling outside the engine: seeded literal texts")
def tmp_text(vc, kind, text, opt):
    p = TextMessageProtocol(opcode=TMPService[kind], is_reliable=_flag(vc, "rel"), is_confirmed=_flag(vc, "conf"), has_option=opt is not None,
                            option_data=None if opt is None else vc.bytes_(opt, "opt"), request_id=vc.uint(32, "rid"), destination_ip=rip(vc, "dst"), source_ip=rip(vc, "src"),
                            text_data=text)
    vc.prove("text_is_stored_as_utf16_le", p.text_data == text.encode("utf-16-le"))
    raw = p.as_bytes()
    vc.prove("length_field_is_the_payload_length", int.from_bytes(raw[3:5], "big") == len(raw) - 7 and len(p) == len(raw))
    vc.prove("checksum_is_that_of_opcode_length_payload", raw[-2] == S.hdap_checksum(raw[1:-2]) and raw[-1] == 3)
    q = HDAP.from_bytes(raw)
    compare_fields(vc, p, q)
    vc.prove("text_decodes_to_the_same_string", q.text_data.decode("utf-16-le") == text)
    vc.prove("reserialises_to_the_same_octets", q.as_bytes() == raw)
    h = HRNP(data=p, opcode=HRNPOpcodes.DATA, packet_number=vc.uint(16, "pn"))
    hr = h.as_bytes()
    vc.prove("nested_in_hrnp_length_and_checksum_verify", int.from_bytes(hr[8:10], "big") == len(hr) and hr[10:12] == S.ones_complement16(hr[:10] + hr[12:]).to_bytes(2, "big")
             and HRNP.from_bytes(hr).checksum_correct and HRNP.from_bytes(hr).as_bytes() == hr)


tmp_text.shapes = lambda tier: [dict(kind=k, text=t, opt=o) for k in ("SendPrivateMessage", "SendGroupMessage") for t in TEXTS for o in (None, 0, 4)]
tmp_text.native_all = True


@contract("RadioIP.text_view", "okdmr.dmrlib.hytera.pdu.radio_ip:RadioIP.as_ip", ["C12", "C17"], bounded=True,
          note="dotted-quad view of a radio address (socket.inet_ntoa / inet_aton: C code, text): as_ip / from_ip are inverse, both octet orders, "
               "and the text - the key of the registration registry - determines subnet and id (native grid + random)")
def radio_ip_text(vc):
    if vc.mode != "native":
        return
    from okdmr.dmrlib.hytera.pdu.radio_ip import RadioIP

    edge = [0, 1, 255, 256, 65535, 65536, 0x7FFFFF, 0x800000, 0xFFFFFE, 0xFFFFFF]
    rid = vc.uint(24, "rid") if vc.uint(2, "e1") else edge[vc.uint(4, "k1") % len(edge)]
    sub = vc.uint(8, "sub") if vc.uint(2, "e2") else [0, 1, 10, 127, 128, 255][vc.uint(3, "k2") % 6]
    p = RadioIP(radio_id=rid, subnet=sub)
    text = p.as_ip()
    vc.prove("text_is_the_dotted_quad_of_subnet_and_id", text == "%d.%d.%d.%d" % (sub, rid >> 16, (rid >> 8) & 255, rid & 255) == str(p))
    q = RadioIP.from_ip(text)
    vc.prove("from_ip_inverts_as_ip", q.subnet == sub and q.radio_id == rid and q.as_bytes() == p.as_bytes())
    r = RadioIP.from_ip(text, endian="little")
    vc.prove("little_endian_reads_the_quad_backwards", r.as_bytes(endian="little") == p.as_bytes())
    raw = p.as_bytes()
    vc.prove("octets_are_subnet_then_id", raw == bytes([sub]) + rid.to_bytes(3, "big") and RadioIP.from_bytes(raw).as_ip() == text)
    other = RadioIP(radio_id=vc.uint(24, "rid2"), subnet=vc.uint(8, "sub2"))
    vc.prove("text_determines_the_address", (other.as_ip() == text) == (other.subnet == sub and other.radio_id == rid))


radio_ip_text.native_random = 600
