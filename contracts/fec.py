"""C06 / C02 contracts (sidecar; repository untouched)"""
import itertools
from pyvc.contract import contract
from okdmr.dmrlib.etsi.fec.bptc_196_96 import BPTC19696
from okdmr.dmrlib.etsi.fec.hamming_7_4_3 import Hamming743
from okdmr.dmrlib.etsi.fec.hamming_13_9_3 import Hamming1393
from okdmr.dmrlib.etsi.fec.hamming_15_11_3 import Hamming15113
from okdmr.dmrlib.etsi.fec.hamming_16_11_4 import Hamming16114
from okdmr.dmrlib.etsi.fec.hamming_17_12_3 import Hamming17123

HAMMING = {c.__name__: c for c in (Hamming743, Hamming1393, Hamming15113, Hamming16114, Hamming17123)}


def _aslist(x):
    return x.tolist() if hasattr(x, "tolist") else list(x)


@contract("Hamming.generate", "okdmr.dmrlib.etsi.fec.hamming_common:HammingCommon.generate", ["C06"])
def hamming_generate(vc, code):
    H = HAMMING[code]
    m = vc.bits(H.CODE_DIMENSION, "m")
    cw = _aslist(H.generate(m))
    vc.prove("length", len(cw) == H.CODEWORD_LENGTH)
    vc.prove("systematic", vc.eq(_mk(vc, cw[: H.CODE_DIMENSION]), m))
    vc.prove("output_passes_check", H.check(_mk(vc, cw)))


hamming_generate.shapes = lambda tier: [dict(code=c) for c in HAMMING]


def _mk(vc, bits):
    """bit list -> bitarray (model in symbolic mode, real in native mode)"""
    if vc.mode == "native":
        from bitarray import bitarray
        return bitarray([int(b) for b in bits])
    from pyvc.values import SBits
    return SBits(bits)


@contract("Hamming.single_error_repair", "okdmr.dmrlib.etsi.fec.hamming_common:HammingCommon.check_and_correct", ["C06"])
def hamming_single(vc, code, pos):
    H = HAMMING[code]
    m = vc.bits(H.CODE_DIMENSION, "m")
    cw = _mk(vc, _aslist(H.generate(m)))
    rx = cw.copy()
    rx.invert(pos)
    ok, fixed = H.check_and_correct(rx)
    vc.prove("reports_repaired", ok)
    vc.prove("repaired_to_original", vc.eq(fixed, cw))


hamming_single.shapes = lambda tier: [dict(code=c, pos=p) for c, H in HAMMING.items() for p in range(H.CODEWORD_LENGTH)]


@contract("Hamming16114.double_error_flagged", "okdmr.dmrlib.etsi.fec.hamming_common:HammingCommon.check_and_correct", ["C06"])
def hamming_double(vc, i, j):
    H = Hamming16114
    m = vc.bits(11, "m")
    rx = _mk(vc, _aslist(H.generate(m)))
    rx.invert(i)
    rx.invert(j)
    ok, _ = H.check_and_correct(rx)
    vc.prove("double_error_uncorrectable", vc.iff(ok, False))


hamming_double.shapes = lambda tier: [dict(i=i, j=j) for i, j in itertools.combinations(range(16), 2)]


def _structured_pairs():
    pos = {}
    for di, (il, r, c, res, ham) in BPTC19696.INTERLEAVING_INDICES.items():
        pos[il] = (r, c, di)
    out = []
    for i, j in itertools.combinations(range(196), 2):
        (r1, c1, d1), (r2, c2, d2) = pos[i], pos[j]
        if d1 == 0 or d2 == 0 or r1 == r2 or c1 == c2:
            out.append((i, j))
    return out


@contract("BPTC19696.decode", "okdmr.dmrlib.etsi.fec.bptc_196_96:BPTC19696.deinterleave_data_bits", ["C02", "C01"])
def bptc_decode(vc, e, repair):
    m = vc.bits(96, "m")
    c = BPTC19696.encode(m)
    vc.prove("encode_length", len(c) == 196)
    for i in e:
        c.invert(i)
    before = c.copy()
    d = BPTC19696.deinterleave_data_bits(c, repair)
    vc.prove("message_recovered", vc.eq(d, m))
    vc.prove("frame_argument_unchanged", vc.eq(c, before))


def _bptc_shapes(tier):
    yield dict(e=(), repair=False)
    yield dict(e=(), repair=True)
    for i in range(196):
        yield dict(e=(i,), repair=True)
    pairs = _structured_pairs() if tier == "quick" else list(itertools.combinations(range(196), 2))
    for p in pairs:
        yield dict(e=tuple(p), repair=True)


bptc_decode.shapes = _bptc_shapes
