"""C02: BPTC(196,96).  Functions under contract: BPTC19696.encode / deinterleave_data_bits / deinterleave_all_bits /
repair_if_necessary / make_encoding_table / fill_encoding_table and the derived maps; inlined (affine, cheap):
Hamming15113 / Hamming1393 generate and correct_numpy_array (under their own C06 contracts in contracts/fec_block.py).

The message is 96 symbolic bits; every error pattern is a literal shape, so each run is one path whose syndromes are
constants - the engine sees the affine forms, no linearity meta-argument is used."""
import itertools

from pyvc.contract import contract
from okdmr.dmrlib.etsi.fec.bptc_196_96 import BPTC19696


def structured_pairs():
    """double errors that share a matrix row or column, or touch the unprotected R(3) bit: the only ones a product-code
    decoder can get wrong (quick tier); the thorough tier runs all 19 110 pairs"""
    pos = {}
    for di, (il, r, c, res, ham) in BPTC19696.INTERLEAVING_INDICES.items():
        pos[il] = (r, c, di)
    out = []
    for i, j in itertools.combinations(range(196), 2):
        (r1, c1, d1), (r2, c2, d2) = pos[i], pos[j]
        if d1 == 0 or d2 == 0 or r1 == r2 or c1 == c2:
            out.append((i, j))
    return out


@contract("BPTC19696.encode", "okdmr.dmrlib.etsi.fec.bptc_196_96:BPTC19696.encode", ["C02", "C19"])
def encode(vc):
    m = vc.bits(96, "m")
    before = m.copy()
    c = BPTC19696.encode(m)
    vc.prove("yields_196_bits", len(c) == 196)
    vc.prove("frame_argument_unchanged", vc.eq(m, before))
    c2 = BPTC19696.encode(m)
    vc.prove("deterministic", vc.eq(c, c2))


@contract("BPTC19696.deinterleave_data_bits", "okdmr.dmrlib.etsi.fec.bptc_196_96:BPTC19696.deinterleave_data_bits", ["C02", "C19"])
def decode(vc, e, repair):
    m = vc.bits(96, "m")
    c = BPTC19696.encode(m)
    for i in e:
        c.invert(i)
    before = c.copy()
    d = BPTC19696.deinterleave_data_bits(c, repair)
    vc.prove("returns_96_bits", len(d) == 96)
    vc.prove("message_recovered" if not e else ("message_recovered_after_%d_inverted_bits" % len(e)), vc.eq(d, m))
    vc.prove("frame_argument_unchanged", vc.eq(c, before))


def _decode_shapes(tier):
    yield dict(e=(), repair=False)
    yield dict(e=(), repair=True)
    for i in range(196):
        yield dict(e=(i,), repair=True)
    pairs = structured_pairs() if tier == "quick" else list(itertools.combinations(range(196), 2))
    for p in pairs:
        yield dict(e=tuple(p), repair=True)


decode.shapes = _decode_shapes
decode.native_random = 60


@contract("BPTC19696.repair_if_necessary", "okdmr.dmrlib.etsi.fec.bptc_196_96:BPTC19696.repair_if_necessary", ["C02"])
def repair(vc, deinterleaved):
    """an error-free codeword is never altered by repair (both entry modes)"""
    m = vc.bits(96, "m")
    c = BPTC19696.encode(m)
    arg = BPTC19696.deinterleave_all_bits(c) if deinterleaved else c
    before = arg.copy()
    out = BPTC19696.repair_if_necessary(arg, deinterleaved=deinterleaved)
    vc.prove("error_free_codeword_not_altered", vc.eq(out, before))
    vc.prove("returns_196_bits", len(out) == 196)
    if not deinterleaved:
        vc.prove("frame_argument_unchanged", vc.eq(arg, before))
    else:
        vc.prove("deinterleaved_mode_repairs_in_place", out is arg)


repair.shapes = lambda tier: [dict(deinterleaved=False), dict(deinterleaved=True)]


@contract("BPTC19696.deinterleave_all_bits", "okdmr.dmrlib.etsi.fec.bptc_196_96:BPTC19696.deinterleave_all_bits", ["C02", "C19"])
def deinterleave_all(vc):
    """pure permutation of 196 free bits, inverse of the placement encode uses"""
    b = vc.bits(196, "b")
    before = b.copy()
    d = BPTC19696.deinterleave_all_bits(b)
    vc.prove("returns_196_bits", len(d) == 196)
    perm = sorted(BPTC19696.FULL_DEINTERLEAVING_MAP.values()) == list(range(196)) and sorted(BPTC19696.FULL_DEINTERLEAVING_MAP.keys()) == list(range(196))
    vc.prove("map_is_a_permutation_of_196", perm)
    vc.prove("places_by_the_map", vc.and_(*[vc.eq(d[i], b[n]) for i, n in BPTC19696.FULL_DEINTERLEAVING_MAP.items()]))
    vc.prove("frame_argument_unchanged", vc.eq(b, before))
