"""C02: BPTC(196,96).  Functions under contract: BPTC19696.encode / deinterleave_data_bits / deinterleave_all_bits /
repair_if_necessary / make_encoding_table / fill_encoding_table and the derived maps; inlined (affine, cheap):
Hamming15113 / Hamming1393 generate and correct_numpy_array (under their own C06 contracts in contracts/fec_block.py).

The message is 96 symbolic bits; every error pattern is a literal shape, so each run is one path whose syndromes are
constants - the engine sees the affine forms, no linearity meta-argument is used."""
import itertools

from pyvc.contract import contract, stub, current_vc
from okdmr.dmrlib.etsi.fec.bptc_196_96 import BPTC19696


def structured_pairs():
    """double errors that share a matrix row or column, or touch the unprotected R(3) bit: the only ones a product-code
    decoder can get wrong (quick tier); the thorough tier runs all 19 110 pairs"""
    pos = {}
    for di, (il, r, c, res, ham) in BPTC19696.INTERLEAVING_INDICES.items():
        pos[il] = (r, c, di)
    out = []
    for i, j in itertools.combinations(range(196), 2):
        (r1, c1, d1), (r2, c2, d2) = pos[i], pos[j]
        if d1 == 0 or d2 == 0 or r1 == r2 or c1 == c2:
            out.append((i, j))
    return out


@contract("BPTC19696.encode", "okdmr.dmrlib.etsi.fec.bptc_196_96:BPTC19696.encode", ["C02", "C19"])
def encode(vc):
    m = vc.bits(96, "m")
    before = m.copy()
    c = BPTC19696.encode(m)
    vc.prove("yields_196_bits", len(c) == 196)
    vc.prove("frame_argument_unchanged", vc.eq(m, before))
    c2 = BPTC19696.encode(m)
    vc.prove("deterministic", vc.eq(c, c2))


@contract("BPTC19696.deinterleave_data_bits", "okdmr.dmrlib.etsi.fec.bptc_196_96:BPTC19696.deinterleave_data_bits", ["C02", "C19"])
def decode(vc, e, repair):
    m = vc.bits(96, "m")
    c = BPTC19696.encode(m)
    for i in e:
        c.invert(i)
    before = c.copy()
    d = BPTC19696.deinterleave_data_bits(c, repair)
    vc.prove("returns_96_bits", len(d) == 96)
    vc.prove("message_recovered" if not e else ("message_recovered_after_%d_inverted_bits" % len(e)), vc.eq(d, m))
    vc.prove("frame_argument_unchanged", vc.eq(c, before))


def _decode_shapes(tier):
    yield dict(e=(), repair=False)
    yield dict(e=(), repair=True)
    for i in range(196):
        yield dict(e=(i,), repair=True)
    pairs = structured_pairs() if tier == "quick" else list(itertools.combinations(range(196), 2))
    for p in pairs:
        yield dict(e=tuple(p), repair=True)


decode.shapes = _decode_shapes
decode.stub_shapes = lambda tier: [dict(e=(), repair=False), dict(e=(), repair=True)]  # what the decoder stub relies on
decode.native_random = 60


@contract("BPTC19696.repair_if_necessary", "okdmr.dmrlib.etsi.fec.bptc_196_96:BPTC19696.repair_if_necessary", ["C02"])
def repair(vc, deinterleaved):
    """an error-free codeword is never altered by repair (both entry modes)"""
    m = vc.bits(96, "m")
    c = BPTC19696.encode(m)
    arg = BPTC19696.deinterleave_all_bits(c) if deinterleaved else c
    before = arg.copy()
    out = BPTC19696.repair_if_necessary(arg, deinterleaved=deinterleaved)
    vc.prove("error_free_codeword_not_altered", vc.eq(out, before))
    vc.prove("returns_196_bits", len(out) == 196)
    if not deinterleaved:
        vc.prove("frame_argument_unchanged", vc.eq(arg, before))
    else:
        vc.prove("deinterleaved_mode_repairs_in_place", out is arg)


repair.shapes = lambda tier: [dict(deinterleaved=False), dict(deinterleaved=True)]


@contract("BPTC19696.deinterleave_all_bits", "okdmr.dmrlib.etsi.fec.bptc_196_96:BPTC19696.deinterleave_all_bits", ["C02", "C19"])
def deinterleave_all(vc):
    """pure permutation of 196 free bits, inverse of the placement encode uses"""
    b = vc.bits(196, "b")
    before = b.copy()
    d = BPTC19696.deinterleave_all_bits(b)
    vc.prove("returns_196_bits", len(d) == 196)
    perm = sorted(BPTC19696.FULL_DEINTERLEAVING_MAP.values()) == list(range(196)) and sorted(BPTC19696.FULL_DEINTERLEAVING_MAP.keys()) == list(range(196))
    vc.prove("map_is_a_permutation_of_196", perm)
    vc.prove("places_by_the_map", vc.and_(*[vc.eq(d[i], b[n]) for i, n in BPTC19696.FULL_DEINTERLEAVING_MAP.items()]))
    vc.prove("frame_argument_unchanged", vc.eq(b, before))


@contract("BPTC19696.deinterleave_data_bits.any_196_bits", "okdmr.dmrlib.etsi.fec.bptc_196_96:BPTC19696.deinterleave_data_bits", ["C02", "C07", "C08"],
          stubs=["HammingCommon.correct_numpy_array"])
def decode_any(vc, repair):
    """ANY 196 received bits: never raises, returns 96 bits, argument unchanged (the row / column repair calls are replaced
    by their any-word contract: some word of the same length comes back)"""
    b = vc.bits(196, "b")
    keep = b.copy()
    d = BPTC19696.deinterleave_data_bits(b, repair)
    vc.prove("returns_96_bits", len(d) == 96)
    vc.prove("frame_argument_unchanged", vc.eq(b, keep))


decode_any.shapes = lambda tier: [dict(repair=True), dict(repair=False)]


def _same_bits(a, b):
    from pyvc import core
    from pyvc.values import bitpoly

    if len(a) != len(b):
        return False
    for x, y in zip(a, b):
        if core.norm_under_pc(bitpoly(x)) != core.norm_under_pc(bitpoly(y)):
            return False
    return True


_real_encode = BPTC19696.__dict__["encode"].__func__
_real_decode = BPTC19696.__dict__["deinterleave_data_bits"].__func__


@stub("BPTC19696.encode", "okdmr.dmrlib.etsi.fec.bptc_196_96:BPTC19696.encode", provided_by="BPTC19696.encode")
def encode_recording(bits_deinterleaved):
    """the real encoder (inlined), plus a ghost record (codeword -> message) for the decoder's contract"""
    out = _real_encode(bits_deinterleaved)
    vc = current_vc()
    vc.ghost.setdefault("bptc", []).append((out.copy(), bits_deinterleaved.copy()))
    return out


@stub("BPTC19696.deinterleave_data_bits", "okdmr.dmrlib.etsi.fec.bptc_196_96:BPTC19696.deinterleave_data_bits",
      provided_by=["BPTC19696.deinterleave_data_bits", "BPTC19696.deinterleave_data_bits.any_196_bits"])
def decode_by_contract(bits, repair_if_necessary=True):
    """what callers see of the decoder: an (error-free) codeword the encoder produced on this path decodes to its message
    [contract BPTC19696.deinterleave_data_bits, e = ()]; for anything else SOME 96 bits come back [any_196_bits]"""
    vc = current_vc()
    assert len(bits) == 196, "BPTC 196,96 decode requires 196 bits"
    from pyvc.values import SBit

    if not any(isinstance(x, SBit) for x in bits.tolist()):  # literal contents: nothing to abstract, the real decoder runs
        return _real_decode(bits, repair_if_necessary)
    for cw, msg in reversed(vc.ghost.get("bptc", [])):
        if _same_bits(bits.tolist(), cw.tolist()):
            return msg.copy()
    out = vc.havoc_bits(96)
    vc.ghost.setdefault("bptc", []).append((bits.copy(), out.copy()))  # a function: the same 196 bits decode to the same 96 again
    return out
