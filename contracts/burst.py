"""C01: burst assembly and parsing.  Functions under contract: Burst.__init__ / as_bits / as_bytes / from_bytes / from_bits /
interleave / deinterleave / extract_data / data_type / colour_code, SyncPatterns.resolve_bytes / as_bits / from_bits,
bits_bytes helpers; inlined: BPTC19696 (affine), SlotType / EmbeddedSignalling (Golay / QR, affine), the PDU codecs (C03);
stubs: CRC bit-serial tail (C05), Trellis34.points_to_tribits (C10 loop contract)."""
from pyvc.contract import contract, PathEnd
from contracts.pdu_common import compare_fields, same
from contracts.pdu_csbk import build_csbk, KINDS as CSBK_KINDS
from contracts.pdu_other import build_header, DH_KINDS, build_flc, RATES
from contracts import trellis as trellis_contracts
from okdmr.dmrlib.etsi.layer2.burst import Burst
from okdmr.dmrlib.etsi.layer2.elements.burst_types import BurstTypes
from okdmr.dmrlib.etsi.layer2.elements.data_types import DataTypes
from okdmr.dmrlib.etsi.layer2.elements.sync_patterns import SyncPatterns
from okdmr.dmrlib.etsi.layer2.pdu.slot_type import SlotType
from okdmr.dmrlib.etsi.layer2.pdu.embedded_signalling import EmbeddedSignalling
from okdmr.dmrlib.etsi.layer2.pdu.pi_header import PIHeader
from okdmr.dmrlib.etsi.fec.trellis import Trellis34

DATA_SYNCS = ("BsSourcedData", "MsSourcedData", "Tdma1Data", "Tdma2Data")
VOICE_SYNCS = ("BsSourcedVoice", "MsSourcedVoice", "Tdma1Voice", "Tdma2Voice")


def payload(vc, kind):
    """(PDU built from symbolic in-range fields, slot data type, typed re-parse or None)"""
    fam, _, sub = kind.partition(".")
    if fam == "CSBK":
        return build_csbk(vc, sub), DataTypes.CSBK, None
    if fam == "DataHeader":
        return build_header(vc, sub), DataTypes.DataHeader, None
    if fam == "VoiceLCHeader":
        return build_flc(vc, sub, 24), DataTypes.VoiceLCHeader, None
    if fam == "TerminatorWithLC":
        return build_flc(vc, sub, 24), DataTypes.TerminatorWithLC, None
    if fam == "PIHeader":
        return PIHeader(data=vc.bytes_(10, "d")), DataTypes.PIHeader, None
    cls, types, nbits = RATES[fam]
    t = types[sub]
    kw = {}
    if sub.startswith("Confirmed"):
        kw["dbsn"] = vc.uint(7, "sn")
    if "Last" in sub:
        kw["crc32"] = vc.uint(32, "c32")
    return cls(data=vc.bytes_(t.value, "d"), packet_type=t, **kw), cls.get_data_type(), t


def _kinds(tier):
    out = ["CSBK." + k for k in CSBK_KINDS] + ["DataHeader." + k for k in DH_KINDS]
    out += ["VoiceLCHeader.GroupVoiceChannelUser", "VoiceLCHeader.UnitToUnitVoiceChannelUser", "TerminatorWithLC.GroupVoiceChannelUser", "TerminatorWithLC.UnitToUnitVoiceChannelUser", "PIHeader"]
    for r in RATES:
        for t in ("Unconfirmed", "Confirmed", "UnconfirmedLastBlock", "ConfirmedLastBlock"):
            out.append(r + "." + t)
    return out


@contract("Burst.assemble_parse", "okdmr.dmrlib.etsi.layer2.burst:Burst.as_bits", ["C01", "C19"], stubs=["BitCrcRegister._process_bits", "Trellis34.points_to_tribits"])
def assemble_parse(vc, kind, sync):
    """the library's own assembly idiom (TransmissionGenerator): an empty data burst object whose payload, slot type and sync
    pattern are set, serialised to 33 octets and parsed back"""
    cc = vc.uint(4, "cc")
    p, dt, typed = payload(vc, kind)
    b = Burst(burst_type=BurstTypes.DataAndControl)
    b.has_emb = False
    b.sync_or_embedded_signalling = SyncPatterns[sync]
    b.slot_type = SlotType(colour_code=cc, data_type=dt)
    b.data = p
    if dt == DataTypes.Rate34Data:  # ghost for the trellis decoder's loop contract: the tribits / points of the sent block
        blk = p.as_bits()
        trellis_contracts.GHOST.update(vc=vc, trib=Trellis34.bits_to_tribits(blk), points=Trellis34.tribits_to_points(Trellis34.bits_to_tribits(blk)))
    raw = b.as_bytes()
    vc.prove("serialises_to_33_octets", len(raw) == 33)
    q = Burst.from_bytes(raw)
    vc.prove("parsed_data_type", q.data_type == dt)
    vc.prove("parsed_colour_code", vc.eq(q.colour_code, cc))
    vc.prove("parsed_sync_pattern", q.sync_or_embedded_signalling is SyncPatterns[sync])
    vc.prove("payload_bits_equal", vc.eq(q.data.as_bits(), p.as_bits()))
    if typed is None:
        # (a PI header built from data alone has no received CRC to agree with: its crc_ok indicator is C04's business)
        compare_fields(vc, p, q.data, prefix="payload_field.", skip=("crc_ok",) if isinstance(p, PIHeader) else ())
    else:
        compare_fields(vc, p, q.data.convert(typed), prefix="payload_field.")
    vc.prove("reserialises_to_the_identical_33_octets", vc.eq(q.as_bytes(), raw))
    vc.prove("slot_type_parity_ok", q.slot_type.fec_parity_ok)


def _ap_shapes(tier):
    kinds = _kinds(tier)
    for i, k in enumerate(kinds):
        for j, s in enumerate(DATA_SYNCS):
            if tier == "thorough" or (i + j) % 4 == 0 or k in ("CSBK.PreambleCSBK", "Rate34.Confirmed"):
                yield dict(kind=k, sync=s)


assemble_parse.shapes = _ap_shapes
assemble_parse.cost = 40


@contract("Burst.voice_sync", "okdmr.dmrlib.etsi.layer2.burst:Burst.from_bits", ["C01", "C19"])
def voice_sync(vc, sync):
    """any 216 vocoder bits around a voice sync pattern survive parse-then-serialise bit for bit"""
    v = vc.bits(216, "v")
    x = v[:108] + SyncPatterns[sync].as_bits() + v[108:]
    keep = x.copy()
    b = Burst.from_bits(x, BurstTypes.Vocoder)
    vc.prove("voice_burst_survives_bit_for_bit", vc.eq(b.as_bits(), keep))
    vc.prove("is_a_vocoder_superframe_start", b.is_vocoder and b.is_voice_superframe_start)
    vc.prove("vocoder_bits_kept", vc.eq(b.voice_bits, v))
    vc.prove("frame_argument_unchanged", vc.eq(x, keep))


voice_sync.shapes = lambda tier: [dict(sync=s) for s in VOICE_SYNCS]


@contract("Burst.voice_emb", "okdmr.dmrlib.etsi.layer2.burst:Burst.from_bits", ["C01", "C19"])
def voice_emb(vc):
    """any 216 vocoder bits around valid embedded signalling (any colour code, PI, LCSS) with any 32 embedded bits"""
    v = vc.bits(216, "v")
    cc = vc.uint(4, "cc")
    emb = EmbeddedSignalling(colour_code=cc, preemption_and_power_control_indicator=vc.bit("pi"), link_control_start_stop=vc.uint(2, "lcss"))
    e = emb.as_bits()
    mid = vc.bits(32, "mid")
    x = v[:108] + e[:8] + mid + e[8:] + v[108:]
    keep = x.copy()
    b = Burst.from_bits(x, BurstTypes.Vocoder)
    vc.prove("voice_burst_survives_bit_for_bit", vc.eq(b.as_bits(), keep))
    if b.has_emb:
        vc.prove("colour_code_read_back", vc.eq(b.colour_code, cc))
        vc.prove("embedded_bits_kept", vc.eq(b.embedded_signalling_bits, mid))
        vc.prove("emb_parity_ok", b.emb.emb_parity_ok)


# (on the current tree: 2 paths; a budget keeps a change that sends voice bursts down the data path from running away - what the
# explored paths refute stands, the rest of the job is reported undecided)
voice_emb.max_paths = 400
voice_emb.budget_s = 120
voice_sync.max_paths = 400
voice_sync.budget_s = 120
