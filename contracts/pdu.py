"""C03 / C01 contracts (first kinds)"""
from pyvc.contract import contract
from okdmr.dmrlib.etsi.layer2.pdu.csbk import CSBK
from okdmr.dmrlib.etsi.layer2.elements.csbk_opcodes import CsbkOpcodes
from okdmr.dmrlib.etsi.layer2.elements.feature_set_ids import FeatureSetIDs
from okdmr.dmrlib.etsi.layer3.elements.source_type import SourceType
from okdmr.dmrlib.etsi.layer3.elements.reason_code import ReasonCode
from okdmr.dmrlib.etsi.layer3.elements.additional_information_field import AdditionalInformationField
from okdmr.dmrlib.etsi.layer3.elements.service_options import ServiceOptions
from okdmr.dmrlib.etsi.layer3.elements.answer_response import AnswerResponse
from okdmr.dmrlib.etsi.layer2.burst import Burst
from okdmr.dmrlib.etsi.layer2.elements.burst_types import BurstTypes
from okdmr.dmrlib.etsi.layer2.elements.data_types import DataTypes
from okdmr.dmrlib.etsi.layer2.elements.sync_patterns import SyncPatterns
from okdmr.dmrlib.etsi.layer2.pdu.slot_type import SlotType


def _fval(x):
    return x.value if hasattr(x, "value") and hasattr(x, "name") else x


def build_csbk(vc, kind):
    common = dict(last_block=vc.bit("lb"), protect_flag=vc.bit("pf"), manufacturers_feature_set_id=FeatureSetIDs.StandardizedFID)
    if kind == "PreambleCSBK":
        return CSBK(csbko=CsbkOpcodes.PreambleCSBK, csbk_content_follows_preambles=vc.bit("cf"), target_address_is_individual=vc.bit("ti"),
                    blocks_to_follow=vc.uint(8, "btf"), target_address=vc.uint(24, "ta"), source_address=vc.uint(24, "sa"), **common), \
            ("last_block", "protect_flag", "csbk_content_follows_preambles", "target_address_is_individual", "blocks_to_follow", "target_address", "source_address")
    if kind == "BSOutboundActivation":
        return CSBK(csbko=CsbkOpcodes.BSOutboundActivation, bs_address=vc.uint(24, "bs"), source_address=vc.uint(24, "sa"), **common), ("last_block", "protect_flag", "bs_address", "source_address")
    if kind == "NegativeAcknowledgementResponse":
        return CSBK(csbko=CsbkOpcodes.NegativeAcknowledgementResponse, additional_information_field=AdditionalInformationField(vc.bit("ai")),
                    source_type=SourceType(vc.bit("st")), service_type=CsbkOpcodes.UnitToUnitVoiceServiceRequest, reason_code=list(ReasonCode)[0],
                    target_address=vc.uint(24, "ta"), source_address=vc.uint(24, "sa"), **common), \
            ("last_block", "protect_flag", "additional_information_field", "source_type", "service_type", "reason_code", "target_address", "source_address")
    if kind == "AlohaPDUsForRandomAccessProtocol":
        return CSBK(csbko=CsbkOpcodes.AlohaPDUsForRandomAccessProtocol, tsccas_support=vc.bit("tsccas") == 1, site_timeslot_synchronized=vc.bit("sts") == 1,
                    document_version_control=vc.uint(3, "dvc"), tscc_is_offset_timing=vc.bit("off") == 1, ts_active_connection=vc.bit("act") == 1,
                    aloha_mask=vc.uint(5, "mask"), service_function=0, nrand_wait=vc.uint(4, "nr"), tscc_reg_required=vc.bit("reg") == 1,
                    tscc_backoff=vc.uint(4, "bo"), system_identity_code=vc.uint(16, "sic"), target_address=vc.uint(24, "ta"), **common), \
            ("last_block", "protect_flag", "tsccas_support", "site_timeslot_synchronized", "document_version_control", "tscc_is_offset_timing", "ts_active_connection",
             "aloha_mask", "nrand_wait", "tscc_reg_required", "tscc_backoff", "system_identity_code", "target_address")
    raise KeyError(kind)


KINDS = ("PreambleCSBK", "BSOutboundActivation", "NegativeAcknowledgementResponse", "AlohaPDUsForRandomAccessProtocol")


@contract("CSBK.build_parse", "okdmr.dmrlib.etsi.layer2.pdu.csbk:CSBK.from_bits", ["C03"])
def csbk_build_parse(vc, kind):
    p, fields = build_csbk(vc, kind)
    b = p.as_bits()
    vc.prove("fixed_length_96", len(b) == 96)
    q = CSBK.from_bits(b)
    for f in fields:
        vc.prove("field." + f, vc.eq(_fval(getattr(q, f)), _fval(getattr(p, f))))
    vc.prove("reserialises_to_equal_bits", vc.eq(q.as_bits(), b))


csbk_build_parse.shapes = lambda tier: [dict(kind=k) for k in KINDS]


@contract("Burst.assemble_parse", "okdmr.dmrlib.etsi.layer2.burst:Burst.as_bits", ["C01"])
def burst_roundtrip(vc, kind, sync):
    cc = vc.uint(4, "cc")
    p, _ = build_csbk(vc, kind)
    b = Burst(burst_type=BurstTypes.DataAndControl)
    b.has_emb = False
    b.sync_or_embedded_signalling = SyncPatterns[sync]
    b.slot_type = SlotType(colour_code=cc, data_type=DataTypes.CSBK)
    b.data = p
    raw = b.as_bytes()
    vc.prove("33_octets", len(raw) == 33)
    q = Burst.from_bytes(raw)
    vc.prove("data_type", q.data_type == DataTypes.CSBK)
    vc.prove("colour_code", vc.eq(q.colour_code, cc))
    vc.prove("payload_bits", vc.eq(q.data.as_bits(), p.as_bits()))
    vc.prove("reserialises_to_identical_octets", vc.eq(q.as_bytes(), raw))
    vc.prove("slot_parity_ok", q.slot_type.fec_parity_ok)


burst_roundtrip.shapes = lambda tier: [dict(kind=k, sync=s) for k in KINDS for s in ("BsSourcedData", "MsSourcedData", "Tdma1Data", "Tdma2Data")]
