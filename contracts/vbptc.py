"""C09: variable-length BPTCs - VBPTC(128,72) embedded LC, VBPTC(68,28) CACH short LC, VBPTC(32,11) single burst / RC.
Functions under contract: encode / deinterleave_data_bits / deinterleave_all_bits / deinterleave_cs5_bits |
deinterleave_crc8_bits / fill_encoding_table / set_parity of the three classes, FiveBitChecksum.calculate / verify;
CRC8.calculate through its C05 contract chain (bit-serial tail stubbed), Hamming16114 / Hamming17123 inlined (C06)."""
from pyvc.contract import contract
from okdmr.dmrlib.etsi.fec.vbptc_128_72 import VBPTC12873
from okdmr.dmrlib.etsi.fec.vbptc_68_28 import VBPTC6828
from okdmr.dmrlib.etsi.fec.vbptc_32_11 import VBPTC3211
from okdmr.dmrlib.etsi.fec.five_bit_checksum import FiveBitChecksum
from okdmr.dmrlib.etsi.fec.hamming_16_11_4 import Hamming16114
from okdmr.dmrlib.etsi.fec.hamming_17_12_3 import Hamming17123
from okdmr.dmrlib.etsi.crc.crc8 import CRC8
from bitarray.util import ba2int as _real_ba2int


def ba2int(vc, b):
    if vc.mode == "native":
        return _real_ba2int(b)
    from pyvc.values import s_ba2int

    return s_ba2int(b)


def matrix(vc, cls, e, rows, cols):
    """the transmitted matrix, rebuilt from the on-air bits by the interleave table (row numbered from 1)"""
    M = [[None] * cols for _ in range(rows)]
    for di, info in cls.INTERLEAVING_INDICES.items():
        M[info[1] - 1][info[2]] = e[info[0]]
    return M


def xor_all(bits):
    r = 0
    for b in bits:
        r = b ^ r
    return r


def common(vc, cls, m, e, n, rows, cols, data_rows, ham, odd=False):
    vc.prove("yields_%d_bits" % n, len(e) == n)
    M = matrix(vc, cls, e, rows, cols)
    vc.prove("interleave_table_covers_the_matrix", all(x is not None for r in M for x in r))
    for r in range(data_rows):
        vc.prove("data_row_is_a_hamming_codeword", ham.check(vc.mkbits(M[r])))
    for c in range(cols):
        vc.prove("column_parity_rule", vc.eq(xor_all(M[r][c] for r in range(rows)), 1 if odd else 0))
    full = cls.deinterleave_all_bits(e)
    vc.prove("deinterleave_all_returns_%d_bits" % n, len(full) == n)
    return full


@contract("VBPTC12873.encode", "okdmr.dmrlib.etsi.fec.vbptc_128_72:VBPTC12873.encode", ["C09", "C19"])
def v128(vc):
    m = vc.bits(72, "m")
    before = m.copy()
    e = VBPTC12873.encode(m)
    full = common(vc, VBPTC12873, m, e, 128, 8, 16, 7, Hamming16114)
    vc.prove("frame_argument_unchanged", vc.eq(m, before))
    vc.prove("extractor_returns_the_message", vc.eq(VBPTC12873.deinterleave_data_bits(e, include_cs5=False), m))
    d77 = VBPTC12873.deinterleave_data_bits(e)
    vc.prove("extractor_with_checksum_returns_77_bits_message_first", vc.and_(len(d77) == 77, vc.eq(d77[:72], m)))
    cs_read = ba2int(vc, VBPTC12873.deinterleave_cs5_bits(e))
    cs_calc = FiveBitChecksum.calculate(m.tobytes())
    vc.prove("embedded_cs5_read_back_equals_computed_checksum", vc.eq(cs_read, cs_calc))
    vc.prove("extracted_77_bits_end_with_the_same_checksum_bits", vc.eq(d77[72:], VBPTC12873.deinterleave_cs5_bits(e)))
    vc.prove("encode_of_message_with_checksum_is_the_same", vc.eq(VBPTC12873.encode(d77), e))
    vc.prove("encode_of_deinterleaved_matrix_is_the_same", vc.eq(VBPTC12873.encode(full), e))


@contract("VBPTC6828.encode", "okdmr.dmrlib.etsi.fec.vbptc_68_28:VBPTC6828.encode", ["C09", "C19"], stubs=["BitCrcRegister._process_bits"])
def v68(vc):
    m = vc.bits(28, "m")
    before = m.copy()
    e = VBPTC6828.encode(m)
    full = common(vc, VBPTC6828, m, e, 68, 4, 17, 3, Hamming17123)
    vc.prove("frame_argument_unchanged", vc.eq(m, before))
    vc.prove("extractor_returns_the_message", vc.eq(VBPTC6828.deinterleave_data_bits(e, include_crc8=False), m))
    d36 = VBPTC6828.deinterleave_data_bits(e)
    vc.prove("extractor_with_checksum_returns_36_bits_message_first", vc.and_(len(d36) == 36, vc.eq(d36[:28], m)))
    # the library's extractor hands the CRC-8 out least significant bit first (its `bytereverse`; the repository's own
    # test pins `extracted == int2ba(crc, length=8, endian="little")`), so that is the order it is read in here
    ex = VBPTC6828.deinterleave_crc8_bits(e)
    crc_read = vc.from_bits(ex.tolist(), msb_first=False)
    crc_calc = CRC8.calculate(m)
    vc.prove("extracted_crc8_has_8_bits", len(ex) == 8)
    vc.prove("embedded_crc8_read_back_equals_computed_checksum", vc.eq(crc_read, crc_calc))
    vc.prove("encode_of_message_with_checksum_is_the_same", vc.eq(VBPTC6828.encode(d36), e))
    vc.prove("encode_of_deinterleaved_matrix_is_the_same", vc.eq(VBPTC6828.encode(full), e))


@contract("VBPTC3211.encode", "okdmr.dmrlib.etsi.fec.vbptc_32_11:VBPTC3211.encode", ["C09", "C19"])
def v32(vc, even):
    m = vc.bits(11, "m")
    before = m.copy()
    e = VBPTC3211.encode(m, even) if not even else VBPTC3211.encode(m)
    full = common(vc, VBPTC3211, m, e, 32, 2, 16, 1, Hamming16114, odd=not even)
    vc.prove("frame_argument_unchanged", vc.eq(m, before))
    vc.prove("extractor_returns_the_message", vc.eq(VBPTC3211.deinterleave_data_bits(e), m))
    vc.prove("encode_of_deinterleaved_matrix_is_the_same", vc.eq(VBPTC3211.encode(full, even), e))


v32.shapes = lambda tier: [dict(even=True), dict(even=False)]


@contract("FiveBitChecksum.calculate", "okdmr.dmrlib.etsi.fec.five_bit_checksum:FiveBitChecksum.calculate", ["C09", "C19"])
def cs5(vc, n):
    """B.3.11: the checksum is the sum of the nine LC octets modulo 31 (shorter input = leading zero octets)"""
    d = vc.bytes_(n, "d")
    r = FiveBitChecksum.calculate(d)
    if vc.mode == "native":
        vc.prove("sum_of_octets_mod_31", r == sum(d) % 31 and 0 <= r <= 30)
        v = vc.uint(5, "v")
        vc.assume(v < 31)
        vc.prove("verify_accepts_exactly_the_computed_value", FiveBitChecksum.verify(d, v) == (v == sum(d) % 31))
        return
    from pyvc import arith
    from pyvc.values import SLin

    tot = 0
    for x in d.v:
        tot = tot + x
    want = (arith.from_lin(SLin.lift(tot)) % 31).to_sint()
    vc.prove("sum_of_octets_mod_31", vc.eq(r, want))
    v = vc.uint(5, "v")
    vc.assume(v < 31)
    vc.prove("verify_accepts_exactly_the_computed_value", vc.iff(FiveBitChecksum.verify(d, v), vc.eq(want, v)))


cs5.shapes = lambda tier: [dict(n=9), dict(n=8), dict(n=1)]
