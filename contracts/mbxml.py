"""C14 contracts (integer codecs)"""
from pyvc.contract import contract
from okdmr.dmrlib.motorola.mbxml import MBXML


def _canonical_uintvar(v):
    """spec (concrete): shortest big-endian septet sequence, continuation bit on all but the last octet"""
    out = [v & 0x7F]
    v >>= 7
    while v:
        out.append((v & 0x7F) | 0x80)
        v >>= 7
    return bytes(reversed(out))


@contract("MBXML.uintvar", "okdmr.dmrlib.motorola.mbxml:MBXML.write_uintvar", ["C14", "C15"])
def uintvar(vc):
    v = vc.uint(32, "v")
    w = MBXML.write_uintvar(v)
    r, idx = MBXML.read_uintvar(w, 0)
    vc.prove("read_returns_written_value", vc.eq(r, v))
    vc.prove("read_consumes_exactly_the_written_octets", idx == len(w))
    if vc.mode == "native":
        vc.prove("canonical_shortest_form", w == _canonical_uintvar(v))
    else:
        # canonical: length = ceil(bitlen/7) (1 for zero), top septet non-zero unless single octet;
        # on this path the bit length is decided by the bin() model, so len(w) is concrete
        from pyvc.values import SInt
        vv = SInt.lift(v) if not isinstance(v, int) else None
        top = (vv.under_pc() if vv is not None else v)
        # number of septets needed for every value on this path: derive from the highest bit known set
        hi = max([i for i, b in enumerate(vv.bits) if (core_bit_is_one(b))] + [0]) if vv is not None else max(v.bit_length() - 1, 0)
        vc.prove("canonical_shortest_form", len(w) == hi // 7 + 1)


def core_bit_is_one(b):
    from pyvc.values import SBit
    from pyvc import core
    if isinstance(b, SBit):
        return core.norm_under_pc(b.p) == core.ONE
    return bool(b)


uintvar.shapes = lambda tier: [dict()]


@contract("MBXML.sintvar", "okdmr.dmrlib.motorola.mbxml:MBXML.write_sintvar", ["C14"])
def sintvar(vc, negative):
    mag = vc.uint(31, "mag")
    v = -mag if (negative and vc.mode == "native") else mag
    if vc.mode == "symbolic" and negative:
        # write_sintvar(abs) path: call with a negated value is out of reach (negative ints); use the documented
        # equivalent entry: magnitude + negative_zero flag sets the sign bit
        w = MBXML.write_sintvar(mag, negative_zero=True)
        r, idx, sign = MBXML.read_sintvar(w, 0)
        vc.prove("sign_read_back", sign == -1)
        vc.prove("magnitude_read_back", vc.eq(r * -1 if isinstance(r, int) else r, mag) if isinstance(r, int) else vc.eq(abs_of(r), mag))
        return
    w = MBXML.write_sintvar(v)
    r, idx, sign = MBXML.read_sintvar(w, 0)
    vc.prove("value_read_back", vc.eq(r, v))
    vc.prove("consumed", idx == len(w))


def abs_of(r):
    return r


sintvar.shapes = lambda tier: [dict(negative=False)]
