"""C05 (and the CRC stubs used by C03/C04/C07/C09): CRC engines and front ends against the monomial-remainder spec.

Functions under contract: BitCrcRegister._process_bits (loop cut), TableBasedBitCrcRegister._process_bits,
BitCrcRegisterBase.init/update/digest, BitCrcCalculator.calculate_checksum, bits_create_lookup_table (inlined: its
real result is what the table register indexes), BitCrcConfiguration.calc_feed_width_bits, CRC8/CRC9/CRC16/CRC32
calculate / check, CRC9.calculate_from_parts, bits_bytes.bytes_to_bits / byteswap_bytes.
"""
import itertools

from pyvc.contract import contract, stub
from spec import crc as S
import okdmr.dmrlib.etsi.crc.crc as crc
from okdmr.dmrlib.etsi.crc.crc16 import CRC16
from okdmr.dmrlib.etsi.crc.crc8 import CRC8
from okdmr.dmrlib.etsi.crc.crc9 import CRC9
from okdmr.dmrlib.etsi.crc.crc32 import CRC32
from okdmr.dmrlib.etsi.layer2.elements.crc_masks import CrcMasks

CONFS = {"Crc7": crc.Crc7.ETSI_DMR, "Crc8": crc.Crc8.ETSI_DMR, "Crc9": crc.Crc9.ETSI_DMR, "Crc16": crc.Crc16.ETSI_DMR, "Crc32": crc.Crc32.ETSI_DMR}
FEED = {"Crc7": 7, "Crc8": 8, "Crc9": 9, "Crc16": 8, "Crc32": 8}  # "8, else the largest divisor of the width in 2..15"


def byte_bits(vc, data):
    """octets -> bit values, most significant bit of each octet first"""
    out = []
    for by in (list(data) if vc.mode == "native" else data.v if hasattr(data, "v") else list(data)):
        out += vc.bitlist(by, 8)
    return out


# ------------------------------------------------------------------------------------------------ bit-serial register
@stub("BitCrcRegister._process_bits", "okdmr.dmrlib.etsi.crc.crc:BitCrcRegister._process_bits", provided_by="BitCrcRegister._process_bits")
def bitserial_stub(self, bits):
    """what callers see of BitCrcRegister._process_bits: register' = lfsr(register, bits); call-site precondition: the
    chunk length is one the contract below was discharged for (1..feed width) and the configuration is an ETSI one"""
    from pyvc.values import SBits
    from pyvc.core import Undecided

    cfg = self._config
    if not any(cfg is c.value or cfg == c.value for c in CONFS.values()) and not (cfg.init_value == 0 and cfg.final_xor_value == 0 and (cfg.polynomial, cfg.width_bits) in S.ETSI.values()):
        raise Undecided("call[BitCrcRegister._process_bits].pre: configuration outside the contract")
    if not 1 <= len(bits) <= cfg.feed_width_bits:
        raise Undecided("call[BitCrcRegister._process_bits].pre: chunk length %d outside 1..feed" % len(bits))
    self.register = SBits.of(S.lfsr(self.register.tolist(), bits.tolist(), cfg.polynomial, cfg.width_bits))
    return self.register


@contract("BitCrcRegister._process_bits", "okdmr.dmrlib.etsi.crc.crc:BitCrcRegister._process_bits", ["C05"])
def bitserial(vc, conf, L, phase):
    """loop cut with the heap-state invariant  register_k = lfsr(r0, bits[:k])  (4 paths per iteration instead of 4^L)"""
    g, w = S.ETSI[conf]
    reg = crc.BitCrcRegister(CONFS[conf])
    r0 = vc.bits(w, "r")
    d = vc.bits(L, "d")
    reg.register = r0.copy()
    if vc.mode == "native":  # natively the whole loop runs; compare the final state and the return value
        ret = reg._process_bits(d)
        vc.prove("post_register_is_lfsr_of_chunk", reg.register.tolist() == S.lfsr(r0.tolist(), d.tolist(), g, w))
        vc.prove("post_returns_register", ret == reg.register)
        return
    from pyvc import cut
    from pyvc.values import SBits

    def state(kk, loc, it):
        loc["self"].register = SBits.of(S.lfsr(r0.b, d.b[:kk], g, w))
        return ()

    def check(kk, loc, carried):
        vc.prove("invariant_init" if kk == 0 else "invariant_preserved", vc.eq(loc["self"].register, SBits.of(S.lfsr(r0.b, d.b[:kk], g, w))))

    st, ret = cut.run_cut(vc, crc.BitCrcRegister._process_bits, 0, [], phase, state, check, (reg, d))
    if st == "post":
        vc.prove("post_register_is_lfsr_of_chunk", vc.eq(reg.register, SBits.of(S.lfsr(r0.b, d.b, g, w))))
        vc.prove("post_returns_register", vc.eq(ret, reg.register))


bitserial.shapes = lambda tier: [dict(conf=c, L=L, phase=p) for c in CONFS for L in range(1, FEED[c] + 1) for p in ["init", "post"] + list(range(L))]


@contract("spec.lfsr_is_remainder", "okdmr.dmrlib.etsi.crc.crc:BitCrcRegister._process_bits", ["C05"],
          note="lemma about the spec functions only: the loop invariant's lfsr() agrees with the monomial-remainder definition")
def lfsr_is_remainder(vc, conf, n):
    g, w = S.ETSI[conf]
    m = vc.bits(n, "m")
    bits = m.tolist()
    vc.prove("lfsr_from_zero_is_remainder", vc.eq(vc.from_bits(S.lfsr([0] * w, bits, g, w)), vc.from_bits(S.poly_remainder_bits(bits, g, w))))


lfsr_is_remainder.shapes = lambda tier: [dict(conf=c, n=n) for c in CONFS for n in (0, 1, 7, 8, 9, 33, 96, 400)]


# ------------------------------------------------------------------------------------------------ engines
@contract("BitCrcCalculator.calculate_checksum", "okdmr.dmrlib.etsi.crc.crc:BitCrcCalculator.calculate_checksum", ["C05", "C19"], stubs=["BitCrcRegister._process_bits"])
def engine(vc, conf, n, table):
    g, w = S.ETSI[conf]
    cfg = CONFS[conf].value
    vc.prove("configuration_is_etsi", cfg.polynomial == g and cfg.width_bits == w and cfg.init_value == 0 and cfg.final_xor_value == 0 and not cfg.reverse_input_bytes and not cfg.reverse_output_bytes)
    vc.prove("feed_width", cfg.feed_width_bits == FEED[conf])
    calc = crc.BitCrcCalculator(CONFS[conf], table_based=table)
    # C19: whatever an earlier call left in the register must not matter
    calc._crc_register._register = vc.bits(w, "leftover")
    m = vc.bits(n, "m")
    before = m.copy()
    r = calc.calculate_checksum(m)
    vc.prove("length_w", len(r) == w)
    want = S.poly_remainder_bits(m.tolist(), g, w)
    vc.prove("equals_polynomial_remainder", vc.eq(vc.from_bits(r.tolist()), vc.from_bits(want)))
    vc.prove("frame_argument_unchanged", vc.eq(m, before))
    v = vc.uint(w, "v")
    vc.prove("verify_accepts_exactly_the_computed_value", vc.iff(calc.verify_checksum(m, v), vc.eq(vc.from_bits(want), v)))


QUICK_LEN = sorted(set(list(range(0, 34)) + [40, 63, 64, 65, 79, 80, 81, 87, 96, 103, 119, 151, 183, 199, 399, 400]))


def _engine_shapes(tier):
    lengths = range(0, 401) if tier == "thorough" else QUICK_LEN
    for conf in CONFS:
        for n in lengths:
            yield dict(conf=conf, n=n, table=True)
            if n <= 40 or tier == "thorough":
                yield dict(conf=conf, n=n, table=False)


engine.shapes = _engine_shapes


@contract("CRC.detection_lemma", "okdmr.dmrlib.etsi.crc.crc:BitCrcCalculator.calculate_checksum", ["C05"], stubs=["BitCrcRegister._process_bits"],
          note="lemma on the linear map extracted from the real engine: bursts <= w and (CRC-CCITT, 80 message bits) 1-3 bit differences change the CRC")
def detection(vc, conf, n):
    g, w = S.ETSI[conf]
    if vc.mode == "native":
        from bitarray import bitarray

        calc = crc.BitCrcCalculator(CONFS[conf], table_based=True)
        cols = []
        for i in range(n):
            u = bitarray(n)
            u.setall(0)
            u[i] = 1
            cols.append(int(calc.calculate_checksum(u).to01(), 2))
        z = bitarray(n)
        z.setall(0)
        vc.prove("engine_is_linear", int(calc.calculate_checksum(z).to01() or "0", 2) == 0)
    else:
        calc = crc.BitCrcCalculator(CONFS[conf], table_based=True)
        m = vc.bits(n, "m")
        r = calc.calculate_checksum(m)
        rows, consts = vc.linear_map(r.tolist(), list(m))
        vc.prove("engine_is_linear", not any(consts))
        cols = [sum(((rows[i] >> j) & 1) << i for i in range(w)) for j in range(n)]
    # every window of <= w consecutive columns is linearly independent  <=>  no non-zero burst of length <= w is in the kernel
    ok = True
    bad = None
    for s in range(n):
        basis = []
        for c in cols[s:s + w]:
            v = c
            for b in basis:
                v = min(v, v ^ b)
            if v == 0:
                ok, bad = False, s
                break
            basis.append(v)
        if not ok:
            break
    vc.prove("every_burst_up_to_w_bits_changes_the_crc", ok, note=dict(window_start=bad))
    if conf == "Crc16" and n == 80:
        seen = {}
        ok3 = all(c for c in cols)
        pairs = {}
        for i, j in itertools.combinations(range(n), 2):
            x = cols[i] ^ cols[j]
            if x == 0:
                ok3 = False
            pairs.setdefault(x, (i, j))
        for k, c in enumerate(cols):  # a triple sums to zero iff some column equals the XOR of two others
            if c in pairs and k not in pairs[c]:
                ok3 = False
        vc.prove("one_to_three_bit_differences_change_crc_ccitt", ok3)


detection.shapes = lambda tier: [dict(conf=c, n=n) for c in CONFS for n in sorted({{"Crc7": 9, "Crc8": 28, "Crc9": 87, "Crc16": 80, "Crc32": 96}[c], 80, 400 if tier == "thorough" else 160})]


# ------------------------------------------------------------------------------------------------ front ends
def havoc_calc(vc, cls, w):
    """C19: the class-level calculator singleton keeps a register between calls - give it arbitrary contents"""
    cls.CALC._crc_register._register = vc.bits(w, "leftover")


@contract("CRC16.calculate", "okdmr.dmrlib.etsi.crc.crc16:CRC16.calculate", ["C05", "C19"], stubs=["BitCrcRegister._process_bits"])
def crc16_calculate(vc, nbytes, mask):
    d = vc.bytes_(nbytes, "d")
    havoc_calc(vc, CRC16, 16)
    r = CRC16.calculate(d, CrcMasks[mask])
    vc.prove("mask_is_etsi", CrcMasks[mask].value == S.MASKS[mask])
    rem = vc.from_bits(S.poly_remainder_bits(byte_bits(vc, d), 0x1021, 16))
    want = (rem ^ 0xFFFF) ^ S.MASKS[mask]
    vc.prove("inverted_remainder_xor_mask", vc.eq(r, want))
    v = vc.uint(16, "v")
    vc.prove("check_accepts_exactly_the_computed_value", vc.iff(CRC16.check(d, v, CrcMasks[mask]), vc.eq(want, v)))


crc16_calculate.shapes = lambda tier: [dict(nbytes=n, mask=m) for n in ((0, 1, 2, 9, 10, 12, 40) if tier == "quick" else range(0, 51)) for m in S.MASKS if S.MASKS[m] <= 0xFFFF or True]


@contract("CRC8.calculate", "okdmr.dmrlib.etsi.crc.crc8:CRC8.calculate", ["C05", "C19"], stubs=["BitCrcRegister._process_bits"])
def crc8_calculate(vc, n):
    d = vc.bits(n, "d")
    havoc_calc(vc, CRC8, 8)
    before = d.copy()
    r = CRC8.calculate(d)
    want = vc.from_bits(S.poly_remainder_bits(d.tolist(), 0x07, 8))
    vc.prove("plain_remainder_no_inversion_no_mask", vc.eq(r, want))
    vc.prove("frame_argument_unchanged", vc.eq(d, before))
    v = vc.uint(8, "v")
    vc.prove("check_accepts_exactly_the_computed_value", vc.iff(CRC8.check(d, v), vc.eq(want, v)))


crc8_calculate.shapes = lambda tier: [dict(n=n) for n in ((0, 1, 7, 8, 9, 27, 28, 29, 36, 72) if tier == "quick" else range(0, 101))]


@contract("CRC9.calculate", "okdmr.dmrlib.etsi.crc.crc9:CRC9.calculate", ["C05", "C19"], stubs=["BitCrcRegister._process_bits"])
def crc9_calculate(vc, n, mask):
    d = vc.bits(n, "d")
    havoc_calc(vc, CRC9, 9)
    r = CRC9.calculate(d, CrcMasks[mask])
    vc.prove("mask_is_etsi", CrcMasks[mask].value == S.MASKS[mask])
    rem = vc.from_bits(S.poly_remainder_bits(d.tolist(), 0x059, 9))
    vc.prove("inverted_remainder_xor_mask", vc.eq(r, (rem ^ 0x1FF) ^ S.MASKS[mask]))


crc9_calculate.shapes = lambda tier: [dict(n=n, mask=m) for n in ((0, 1, 8, 9, 10, 87, 103, 135, 183) if tier == "quick" else range(0, 200)) for m in ("Rate12DataContinuation", "Rate34DataContinuation", "Rate1DataContinuation")]


@contract("CRC9.calculate_from_parts", "okdmr.dmrlib.etsi.crc.crc9:CRC9.calculate_from_parts", ["C05", "C19"], stubs=["BitCrcRegister._process_bits"])
def crc9_parts(vc, nbytes, mask, crc32kind):
    """B.3.10: CRC-9 over data octets (+ the 32-bit CRC of the last block when given) followed by the 7-bit serial number"""
    d = vc.bytes_(nbytes, "d")
    sn = vc.uint(7, "sn")
    havoc_calc(vc, CRC9, 9)
    bits = byte_bits(vc, d)
    if crc32kind == "none":
        c32 = None
    elif crc32kind == "zero":
        c32 = 0
    elif crc32kind == "int":
        c32 = vc.uint(32, "c32")
        vc.assume(vc.not_(vc.eq(c32, 0)))
        bits = bits + vc.bitlist(c32, 32)
    else:
        c32 = vc.bytes_(4, "c32b")
        bits = bits + byte_bits(vc, c32)
    bits = bits + vc.bitlist(sn, 7)
    r = CRC9.calculate_from_parts(data=d, serial_number=sn, mask=CrcMasks[mask], crc32=c32)
    rem = vc.from_bits(S.poly_remainder_bits(bits, 0x059, 9))
    want = (rem ^ 0x1FF) ^ S.MASKS[mask]
    vc.prove("crc9_of_data_crc32_serial", vc.eq(r, want))
    v = vc.uint(9, "v")
    vc.prove("check_accepts_exactly_the_computed_value", vc.iff(CRC9.check(data=d, serial_number=sn, crc9=v, mask=CrcMasks[mask], crc32=c32), vc.eq(want, v)))


GEOM = (("Rate12DataContinuation", (10, 6, 12, 8)), ("Rate34DataContinuation", (16, 12, 18, 14)), ("Rate1DataContinuation", (22, 18, 24, 20)))
crc9_parts.shapes = lambda tier: [dict(nbytes=n, mask=m, crc32kind=k) for m, ns in GEOM for n in ns for k in ("none", "zero", "int", "bytes")]


@contract("CRC32.calculate", "okdmr.dmrlib.etsi.crc.crc32:CRC32.calculate", ["C05", "C19"], stubs=["BitCrcRegister._process_bits"])
def crc32_calculate(vc, nbytes):
    """B.3.9: plain remainder (no inversion, no mask) over the data taken as 16-bit words, low octet first"""
    d = vc.bytes_(nbytes, "d")
    havoc_calc(vc, CRC32, 32)
    r = CRC32.calculate(d)
    octs = S.byteswap16(list(d) if vc.mode == "native" else list(d.v))
    bits = []
    for o in octs:
        bits += vc.bitlist(o, 8)
    want = vc.from_bits(S.poly_remainder_bits(bits, 0x04C11DB7, 32))
    vc.prove("remainder_over_swapped_words", vc.eq(r, want))
    v = vc.uint(32, "v")
    vc.prove("check_accepts_exactly_the_computed_value", vc.iff(CRC32.check(d, v), vc.eq(want, v)))


crc32_calculate.shapes = lambda tier: [dict(nbytes=n) for n in ((0, 1, 2, 3, 4, 5, 8, 12, 20, 24, 36, 64) if tier == "quick" else list(range(0, 65)) + [96, 120, 144, 192, 240])]


@contract("byteswap_bytes.frame", "okdmr.dmrlib.utils.bits_bytes:byteswap_bytes", ["C19", "C05", "C13"], stubs=["BitCrcRegister._process_bits"],
          note="the 16-bit word swap works on a private copy: a caller's MUTABLE buffer (bytearray) is left alone by byteswap_bytes and by CRC32.calculate / check, "
               "and gives the same results as the immutable octets")
def byteswap_frame(vc, nbytes):
    from okdmr.dmrlib.utils.bits_bytes import byteswap_bytes

    d = vc.bytes_(nbytes, "d")
    if vc.mode == "native":
        buf = bytearray(d)
    else:
        from pyvc.shadows import SByteArray

        buf = SByteArray(d)
    want = S.byteswap16(list(d) if vc.mode == "native" else list(d.v))
    out = byteswap_bytes(buf)
    vc.prove("swaps_the_octets_of_each_16_bit_word", len(out) == nbytes and vc.and_(*[vc.eq(out[i], want[i]) for i in range(nbytes)]))
    vc.prove("mutable_argument_unchanged_by_byteswap", len(buf) == nbytes and vc.and_(*[vc.eq(buf[i], d[i]) for i in range(nbytes)]))
    havoc_calc(vc, CRC32, 32)
    r1 = CRC32.calculate(buf)
    vc.prove("mutable_argument_unchanged_by_crc32", len(buf) == nbytes and vc.and_(*[vc.eq(buf[i], d[i]) for i in range(nbytes)]))
    r2 = CRC32.calculate(d)
    vc.prove("crc32_of_a_bytearray_equals_crc32_of_the_bytes", vc.eq(r1, r2))
    ok = CRC32.check(buf, r2)
    vc.prove("check_accepts_the_value_and_leaves_the_buffer_alone", vc.and_(ok, *[vc.eq(buf[i], d[i]) for i in range(nbytes)]))


byteswap_frame.shapes = lambda tier: [dict(nbytes=n) for n in ((0, 1, 2, 5, 8, 20) if tier == "quick" else range(0, 41))]
