"""C05 contracts"""
from pyvc.contract import contract
from spec import crc as S
import okdmr.dmrlib.etsi.crc.crc as crc
from okdmr.dmrlib.etsi.crc.crc16 import CRC16
from okdmr.dmrlib.etsi.crc.crc8 import CRC8
from okdmr.dmrlib.etsi.crc.crc9 import CRC9
from okdmr.dmrlib.etsi.layer2.elements.crc_masks import CrcMasks

CONFS = {"Crc7": crc.Crc7.ETSI_DMR, "Crc8": crc.Crc8.ETSI_DMR, "Crc9": crc.Crc9.ETSI_DMR, "Crc16": crc.Crc16.ETSI_DMR, "Crc32": crc.Crc32.ETSI_DMR}


def _bits_value(vc, bits):
    """list of bits (MSB first) -> int-like"""
    if vc.mode == "native":
        v = 0
        for b in bits:
            v = (v << 1) | int(b)
        return v
    from pyvc.values import SInt
    return SInt(list(reversed(bits))).n()


def _bitserial_contract(self, bits):
    """what callers see of BitCrcRegister._process_bits (proved separately with the loop cut)"""
    from pyvc.values import SBits
    cfg = self._config
    self.register = SBits.of(S.lfsr(self.register.tolist(), bits.tolist(), cfg.polynomial, cfg.width_bits))
    return self.register


@contract("BitCrcCalculator.calculate_checksum", "okdmr.dmrlib.etsi.crc.crc:BitCrcCalculator.calculate_checksum", ["C05", "C19"], stubs=["BitCrcRegister._process_bits"])
def engine(vc, conf, n, table):
    if vc.mode == "symbolic":
        real = crc.BitCrcRegister._process_bits
        crc.BitCrcRegister._process_bits = _bitserial_contract
        try:
            return _engine(vc, conf, n, table)
        finally:
            crc.BitCrcRegister._process_bits = real
    return _engine(vc, conf, n, table)


def _engine(vc, conf, n, table):
    g, w = S.ETSI[conf]
    cfg = CONFS[conf].value
    vc.prove("config_polynomial_is_etsi", cfg.polynomial == g and cfg.width_bits == w and cfg.init_value == 0 and cfg.final_xor_value == 0)
    calc = crc.BitCrcCalculator(CONFS[conf], table_based=table)
    # C19: whatever an earlier call left in the register must not matter
    calc._crc_register._register = vc.bits(w, "leftover")
    m = vc.bits(n, "m")
    before = m.copy()
    r = calc.calculate_checksum(m)
    vc.prove("length", len(r) == w)
    want = S.poly_remainder_bits(m.tolist(), g, w)
    vc.prove("equals_polynomial_remainder", vc.eq(_bits_value(vc, r.tolist()), _bits_value(vc, want)))
    vc.prove("frame_argument_unchanged", vc.eq(m, before))


def _engine_shapes(tier):
    lengths = range(0, 401) if tier == "thorough" else sorted(set(list(range(0, 34)) + [40, 63, 64, 65, 79, 80, 81, 87, 96, 119, 151, 199, 399, 400]))
    for conf in CONFS:
        for n in lengths:
            yield dict(conf=conf, n=n, table=True)
            if n <= 24 or tier == "thorough":
                yield dict(conf=conf, n=n, table=False)


engine.shapes = _engine_shapes


@contract("CRC16.calculate", "okdmr.dmrlib.etsi.crc.crc16:CRC16.calculate", ["C05", "C03", "C04"])
def crc16_calculate(vc, nbytes, mask):
    d = vc.bytes_(nbytes, "d")
    r = CRC16.calculate(d, CrcMasks[mask])
    vc.prove("mask_is_etsi", CrcMasks[mask].value == S.MASKS[mask])
    bits = []
    for by in (list(d) if vc.mode == "native" else d.v):
        bits += _byte_bits(vc, by)
    rem = _bits_value(vc, S.poly_remainder_bits(bits, 0x1021, 16))
    vc.prove("inverted_remainder_xor_mask", vc.eq(r, (rem ^ 0xFFFF) ^ S.MASKS[mask]))
    v = vc.uint(16, "v")
    vc.prove("check_iff_equal", vc.iff(CRC16.check(d, v, CrcMasks[mask]), vc.eq(CRC16.calculate(d, CrcMasks[mask]), v)))


def _byte_bits(vc, by):
    if vc.mode == "native":
        return [(by >> (7 - i)) & 1 for i in range(8)]
    from pyvc.values import SInt
    by = SInt.lift(by)
    return [by.bit(7 - i) for i in range(8)]


crc16_calculate.shapes = lambda tier: [dict(nbytes=n, mask=m) for n in ((0, 1, 2, 9, 10, 12, 40) if tier == "quick" else range(0, 41)) for m in ("CSBK", "DataHeader", "PiHeader", "MBCHeader", "UnifiedSingleBlockData")]


# ---- bit-serial register: loop cut with the heap-state invariant register_k = lfsr(r0, bits[:k])
@contract("BitCrcRegister._process_bits", "okdmr.dmrlib.etsi.crc.crc:BitCrcRegister._process_bits", ["C05"])
def bitserial(vc, conf, L, k):
    g, w = S.ETSI[conf]
    if vc.mode == "native":  # natively the whole loop runs; compare the final state
        reg = crc.BitCrcRegister(CONFS[conf])
        r0 = vc.bits(w, "r"); d = vc.bits(L, "d")
        reg.register = r0.copy()
        reg._process_bits(d)
        vc.prove("preserved", reg.register.tolist() == S.lfsr(r0.tolist(), d.tolist(), g, w))
        return
    from pyvc import cut
    from pyvc.values import SBits
    newf, _ = cut.cut(crc.BitCrcRegister._process_bits, 0, [])
    reg = crc.BitCrcRegister(CONFS[conf])
    r0 = vc.bits(w, "r"); d = vc.bits(L, "d")

    def state(kk, loc, it):
        loc["self"].register = SBits.of(S.lfsr(r0.b, d.b[:kk], g, w))
        return ()

    def check(kk, loc, carried):
        vc.prove("preserved", vc.eq(loc["self"].register, SBits.of(S.lfsr(r0.b, d.b[:kk], g, w))))

    newf.__globals__["__vc"] = cut.LoopCtl(("iter", k), state, check)
    try:
        newf(reg, d)
        vc.prove("loop_reached", False)
    except cut.PathDone:
        pass


bitserial.shapes = lambda tier: [dict(conf=c, L=L, k=k) for c in CONFS for L in range(1, CONFS[c].value.feed_width_bits + 1) for k in range(L)]
