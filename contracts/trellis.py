"""C10: rate-3/4 trellis.  Functions under contract: all Trellis34 static methods.  Tables are symbolically indexable
views (point-wise finite functions); the multiplicatively forking decoder loop points_to_tribits is cut per iteration."""
from pyvc.contract import contract, stub
import okdmr.dmrlib.etsi.fec.trellis as tr

T = tr.Trellis34
GHOST = {}


def num(vc, x):
    return int(x) if vc.mode == "native" else vc.val(x)


@contract("Trellis34.tables", "okdmr.dmrlib.etsi.fec.trellis:Trellis34", ["C10"])
def tables(vc):
    M = list(T.TRELLIS34_INTERLEAVE_MATRIX)
    vc.prove("interleave_matrix_is_a_permutation_of_98", sorted(M) == list(range(98)))
    D = dict(T.TRELLIS34_DIBITS)
    vc.prove("dibit_map_is_a_bijection", set(D.keys()) == {(0, 0), (0, 1), (1, 0), (1, 1)} and sorted(D.values()) == [-3, -1, 1, 3])
    vc.prove("dibit_reverse_map_is_its_inverse", all(tuple(dict(T.TRELLIS34_DIBITS_REVERSE)[v]) == tuple(k) for k, v in D.items()) and len(dict(T.TRELLIS34_DIBITS_REVERSE)) == 4)
    P = dict(T.TRELLIS34_CONSTELLATION_POINTS)
    vc.prove("constellation_map_is_a_bijection_onto_16_points", sorted(P.values()) == list(range(16)) and len(P) == 16 and all(a in (-3, -1, 1, 3) and b in (-3, -1, 1, 3) for a, b in P))
    vc.prove("constellation_reverse_map_is_its_inverse", all(tuple(dict(T.TRELLIS34_CONSTELLATION_POINTS_REVERSE)[v]) == tuple(k) for k, v in P.items()) and len(dict(T.TRELLIS34_CONSTELLATION_POINTS_REVERSE)) == 16)
    tab = list(T.TRELLIS34_ENCODER_STATE_TRANSITION)
    vc.prove("transition_table_has_64_entries_in_0_15", len(tab) == 64 and all(0 <= x <= 15 for x in tab))
    vc.prove("every_state_emits_8_distinct_points", all(len(set(tab[s * 8:(s + 1) * 8])) == 8 for s in range(8)))


@contract("Trellis34.encode", "okdmr.dmrlib.etsi.fec.trellis:Trellis34.encode", ["C10", "C19"])
def encode(vc, extra, as_bytes):
    """encode: 196 bits; the decoder's front half (dibits -> deinterleave -> points) recovers exactly the encoder's point
    sequence (so the two permutations and the two point/dibit maps are mutually inverse on everything encode emits)"""
    if as_bytes:
        raw = vc.bytes_(18 + extra, "raw")
        b = vc.mkbits(sum([vc.bitlist(x, 8) for x in (list(raw) if vc.mode == "native" else raw.v)], []))
        e = T.encode(raw)
    else:
        b = vc.bits(144 + extra, "b")
        before = b.copy()
        e = T.encode(b)
        vc.prove("frame_argument_unchanged", vc.eq(b, before))
    vc.prove("yields_196_bits", len(e) == 196)
    pts = T.dibits_to_points(T.deinterleave(T.bits_to_dibits(e)))
    want = T.tribits_to_points(T.bits_to_tribits(b[:144]))
    vc.prove("49_points", len(pts) == 49 and len(want) == 49)
    for i in range(49):
        vc.prove("decoder_front_half_recovers_the_encoder_points", vc.eq(num(vc, pts[i]), num(vc, want[i])))
    if vc.mode == "native":
        vc.prove("decode_inverts_encode", T.decode(e) == b[:144])


encode.shapes = lambda tier: [dict(extra=0, as_bytes=False), dict(extra=0, as_bytes=True), dict(extra=8, as_bytes=False)]


@contract("Trellis34.interleave", "okdmr.dmrlib.etsi.fec.trellis:Trellis34.interleave", ["C10"])
def interleave(vc):
    """interleave / deinterleave are inverse permutations of the 98 dibit positions (contents: any dibit values)"""
    from array import array

    b = vc.bits(196, "b")
    d = T.bits_to_dibits(b)
    vc.prove("98_dibits", len(d) == 98)
    x = T.interleave(T.deinterleave(d))
    y = T.deinterleave(T.interleave(d))
    vc.prove("98_out", len(x) == 98 and len(y) == 98)
    for i in range(98):
        vc.prove("interleave_after_deinterleave_is_identity", vc.eq(_sgn(vc, x[i]), _sgn(vc, d[i])))
        vc.prove("deinterleave_after_interleave_is_identity", vc.eq(_sgn(vc, y[i]), _sgn(vc, d[i])))
    back = T.dibits_to_bits(d)
    vc.prove("dibits_to_bits_inverts_bits_to_dibits", vc.eq(back, b))


def _sgn(vc, v):
    """dibit value -3..3 -> natural number for comparison"""
    if vc.mode == "native":
        return int(v) + 3
    from pyvc.sfun import SFun

    r = SFun.map(lambda t: t + 3, v) if isinstance(v, SFun) else v + 3
    return r.to_sint() if isinstance(r, SFun) else r


@contract("Trellis34.tribits", "okdmr.dmrlib.etsi.fec.trellis:Trellis34.tribits_to_bits", ["C10"])
def tribits(vc):
    b = vc.bits(144, "b")
    t = T.bits_to_tribits(b)
    vc.prove("49_tribits_last_is_flush_zero", len(t) == 49 and vc.eq(num(vc, t[48]), 0))
    back = T.tribits_to_bits(t)
    vc.prove("tribits_to_bits_inverts_bits_to_tribits", vc.eq(back, b))


@contract("Trellis34.points_to_tribits", "okdmr.dmrlib.etsi.fec.trellis:Trellis34.points_to_tribits", ["C10"])
def decode_loop(vc, phase):
    """loop cut with the functional invariant  last = t[k-1], out[:k] = t[:k], out[k:] = 0  where t are the tribits whose
    encoding the argument is.  Per iteration the received point k is additionally left FREE (4 bits): the body must
    raise AssertionError exactly when no successor of state t[k-1] emits that point, and decode it otherwise."""
    b = vc.bits(144, "b")
    trib = T.bits_to_tribits(b)
    pts = T.tribits_to_points(trib)
    tab = list(T.TRELLIS34_ENCODER_STATE_TRANSITION)
    if vc.mode == "native":
        out = T.points_to_tribits(pts)
        vc.prove("post_returns_the_tribits", list(out) == list(trib))
        if phase not in ("init", "post"):
            k = int(phase)
            p = vc.uint(4, "p")
            state = 0 if k == 0 else int(trib[k - 1])
            row = tab[state * 8:state * 8 + 8]
            bad = list(pts)
            bad[k] = p
            from array import array

            try:
                o2 = T.points_to_tribits(array("B", bad))
                # later symbols may legitimately fail; what matters: no exception raised at index k means p is in the row
                vc.prove("impossible_point_is_rejected", p in row)
                vc.prove("possible_point_is_decoded", o2[k] == row.index(p))
            except AssertionError as e:
                if ("index %d " % k) in str(e):
                    vc.prove("impossible_point_is_rejected", p not in row)
        return
    from pyvc import cut, shadows
    from pyvc.sfun import SFun

    free = phase not in ("init", "post")
    if free:
        k = int(phase)
        p = vc.uint(4, "p")
        pl = list(pts)
        pl[k] = p
        arg = shadows.SArray("B", pl)
        lastk = trib[k - 1] if k > 0 else 0
        # membership of p in the row of state lastk, and the tribit that emits it (finite functions over <= 7 atoms)
        member = SFun.map(lambda s, q: 1 if q in tab[s * 8:s * 8 + 8] else 0, lastk, p)
        which = SFun.map(lambda s, q: tab[s * 8:s * 8 + 8].index(q) if q in tab[s * 8:s * 8 + 8] else 0, lastk, p)
    else:
        arg = pts

    def state(kk, loc, it):
        return ((trib[kk - 1] if kk > 0 else 0), shadows.SArray("B", [trib[j] if j < kk else 0 for j in range(49)]))

    def check(kk, loc, carried):
        last, out = carried
        if kk == 0:
            vc.prove("invariant_init", vc.and_(vc.eq(num(vc, last), 0), *[vc.eq(num(vc, out[j]), 0) for j in range(49)]))
            vc.prove("invariant_init_49_slots", len(out) == 49)
            return
        # reached only if the body did not raise: the free point is emitted by the state, and is decoded to its tribit
        vc.prove("impossible_point_is_rejected", vc._b(member))
        vc.prove("possible_point_is_decoded", vc.and_(vc.eq(num(vc, last), num(vc, which)), vc.eq(num(vc, out[kk - 1]), num(vc, which))))
        for j in range(49):
            if j != kk - 1:
                vc.prove("invariant_preserved_other_slots", vc.eq(num(vc, out[j]), trib[j] if j < kk else 0))

    try:
        st, ret = cut.run_cut(vc, T.points_to_tribits, 0, ["last", "out"], phase, state, check, (arg,))
    except AssertionError:
        if not free:
            raise
        vc.prove("possible_point_is_not_rejected", vc.not_(vc._b(member)))
        return
    if st == "post":
        vc.prove("post_returns_49_tribits", len(ret) == 49)
        for j in range(49):
            vc.prove("post_returns_the_tribits", vc.eq(num(vc, ret[j]), trib[j]))


decode_loop.shapes = lambda tier: [dict(phase=p) for p in ["init", "post"] + list(range(49))]
decode_loop.native_random = 100


@stub("Trellis34.points_to_tribits", "okdmr.dmrlib.etsi.fec.trellis:Trellis34.points_to_tribits", provided_by="Trellis34.points_to_tribits")
def points_to_tribits_stub(points):
    """what `decode` sees of points_to_tribits: for points that ARE the encoding of the ghost tribits (call-site
    obligation, proved point by point) it returns those tribits"""
    if GHOST.get("queue"):  # several blocks decoded in a known order (C07): one ghost entry per call
        GHOST.update(GHOST["queue"].pop(0))
    vc, trib, want = GHOST["vc"], GHOST["trib"], GHOST["points"]
    from pyvc import shadows

    ok = len(points) == 49
    vc.prove("call[points_to_tribits].pre.argument_is_an_encoder_output", vc.and_(ok, *[vc.eq(num(vc, points[i]), num(vc, want[i])) for i in range(49)]))
    return shadows.SArray("B", list(trib))


@contract("Trellis34.decode", "okdmr.dmrlib.etsi.fec.trellis:Trellis34.decode", ["C10", "C19"], stubs=["Trellis34.points_to_tribits"])
def decode(vc, as_bytes):
    b = vc.bits(144, "b")
    e = T.encode(b)
    before = e.copy()
    GHOST.update(vc=vc, trib=T.bits_to_tribits(b), points=T.tribits_to_points(T.bits_to_tribits(b)))
    d = T.decode(e, as_bytes=as_bytes)
    if as_bytes:
        vc.prove("decode_encode_is_identity_bytes", vc.eq(d, b.tobytes()))
        vc.prove("18_octets", len(d) == 18)
    else:
        vc.prove("decode_encode_is_identity", vc.eq(d, b))
        vc.prove("144_bits", len(d) == 144)
    vc.prove("frame_argument_unchanged", vc.eq(e, before))


decode.shapes = lambda tier: [dict(as_bytes=False), dict(as_bytes=True)]
