"""C10 contracts"""
from pyvc.contract import contract
import okdmr.dmrlib.etsi.fec.trellis as tr

T = tr.Trellis34


def _num(vc, x):
    """normalise an element (int | SInt | SFun) to something comparable with vc.eq"""
    if vc.mode == "native":
        return int(x)
    from pyvc.sfun import SFun
    return x.to_sint() if isinstance(x, SFun) else x


@contract("Trellis34.tables", "okdmr.dmrlib.etsi.fec.trellis:Trellis34", ["C10"])
def tables(vc):
    M = list(T.TRELLIS34_INTERLEAVE_MATRIX)
    vc.prove("interleave_is_permutation_of_98", sorted(M) == list(range(98)))
    vc.prove("dibit_map_is_bijection", len(set(dict(T.TRELLIS34_DIBITS).values())) == 4 and set(dict(T.TRELLIS34_DIBITS).values()) == {3, 1, -1, -3})
    vc.prove("constellation_map_is_bijection", sorted(dict(T.TRELLIS34_CONSTELLATION_POINTS).values()) == list(range(16)))
    tab = list(T.TRELLIS34_ENCODER_STATE_TRANSITION)
    vc.prove("every_state_row_has_8_distinct_points", all(len(set(tab[s * 8:(s + 1) * 8])) == 8 for s in range(8)) and len(tab) == 64)


tables.shapes = lambda tier: [dict()]


@contract("Trellis34.encode_front_half_inverse", "okdmr.dmrlib.etsi.fec.trellis:Trellis34.encode", ["C10"])
def front_half(vc):
    b = vc.bits(144, "b")
    e = T.encode(b)
    vc.prove("encode_length_196", len(e) == 196)
    pts = T.dibits_to_points(T.deinterleave(T.bits_to_dibits(e)))
    want = T.tribits_to_points(T.bits_to_tribits(b))
    for i in range(49):
        vc.prove("points_recovered", vc.eq(_num(vc, pts[i]), _num(vc, want[i])))
    if vc.mode == "native":
        vc.prove("decode_inverts_encode", T.decode(e) == b)


front_half.shapes = lambda tier: [dict()]


@contract("Trellis34.points_to_tribits", "okdmr.dmrlib.etsi.fec.trellis:Trellis34.points_to_tribits", ["C10"])
def decode_loop(vc, k):
    b = vc.bits(144, "b")
    trib = T.bits_to_tribits(b)
    pts = T.tribits_to_points(trib)
    if vc.mode == "native":
        out = T.points_to_tribits(pts)
        vc.prove("preserved", list(out) == list(trib))
        return
    from pyvc import cut, shadows
    newf, _ = cut.cut(T.points_to_tribits, 0, ["last", "out"])

    def state(kk, loc, it):
        return ((trib[kk - 1] if kk > 0 else 0), shadows.SArray("B", [trib[j] if j < kk else 0 for j in range(49)]))

    def check(kk, loc, carried):
        last, out = carried
        vc.prove("preserved", vc.eq(_num(vc, last), trib[kk - 1]))
        for j in range(49):
            vc.prove("preserved", vc.eq(_num(vc, out[j]), trib[j] if j < kk else 0))

    newf.__globals__["__vc"] = cut.LoopCtl(("iter", k), state, check)
    try:
        newf(pts)
        vc.prove("loop_reached", False)
    except cut.PathDone:
        pass


decode_loop.shapes = lambda tier: [dict(k=k) for k in range(49)]
