"""C08: transmission tracking, by induction over bursts: ONE parseable burst delivered to a timeslot whose tracker is in ANY state
within the invariant.  Functions under contract: Timeslot.process_burst / get_rx_sequence, Terminal.process_incoming_burst,
Transmission.process_packet / process_voice_header / process_data_header / process_csbk / process_data / end_voice_transmission /
end_data_transmission / new_transmission / ensure_transmission / fix_voice_burst_type / is_last_block / end_transmissions, the
WithObservers fan-out.  Stubs: BPTC codec (C02 contracts), trellis decoder loop (C10), CRC bit-serial tail (C05)."""
from pyvc.contract import contract, PathEnd
from contracts import trellis as trellis_contracts
from contracts.burst import payload as c01_payload
from contracts.pdu_other import build_flc, build_header
from okdmr.dmrlib.transmission.terminal import Terminal
from okdmr.dmrlib.transmission.timeslot import Timeslot
from okdmr.dmrlib.transmission.transmission_observer_interface import TransmissionObserverInterface
from okdmr.dmrlib.transmission.transmission_types import TransmissionTypes as TT
from okdmr.dmrlib.etsi.layer2.burst import Burst
from okdmr.dmrlib.etsi.layer2.elements.burst_types import BurstTypes
from okdmr.dmrlib.etsi.layer2.elements.data_types import DataTypes
from okdmr.dmrlib.etsi.layer2.elements.sync_patterns import SyncPatterns
from okdmr.dmrlib.etsi.layer2.elements.voice_bursts import VoiceBursts
from okdmr.dmrlib.etsi.layer2.pdu.slot_type import SlotType
from okdmr.dmrlib.etsi.layer2.pdu.embedded_signalling import EmbeddedSignalling
from okdmr.dmrlib.etsi.layer2.pdu.rate12_data import Rate12Data
from okdmr.dmrlib.etsi.layer2.pdu.data_header import DataHeader
from okdmr.dmrlib.etsi.layer2.pdu.csbk import CSBK
from okdmr.dmrlib.etsi.layer2.pdu.rate34_data import Rate34Data
from okdmr.dmrlib.etsi.layer2.pdu.rate1_data import Rate1Data
from okdmr.dmrlib.etsi.layer2.pdu.full_link_control import FullLinkControl
from okdmr.dmrlib.etsi.fec.trellis import Trellis34


class Raising(TransmissionObserverInterface):
    def transmission_started(self, transmission_type):
        raise RuntimeError("observer failure")

    def data_transmission_ended(self, transmission_header, blocks):
        raise RuntimeError("observer failure")

    def voice_transmission_ended(self, voice_header, blocks):
        raise KeyError("observer failure")


class Rec(TransmissionObserverInterface):
    """records every notification together with the tracker's stream id at that moment"""

    def __init__(self):
        self.ev = []
        self.tx = None

    def transmission_started(self, transmission_type):
        self.ev.append(("start", transmission_type, None, None, self.tx.stream_no))

    def data_transmission_ended(self, transmission_header, blocks):
        self.ev.append(("end", TT.DataTransmission, transmission_header, list(blocks), self.tx.stream_no))

    def voice_transmission_ended(self, voice_header, blocks):
        self.ev.append(("end", TT.VoiceTransmission, voice_header, list(blocks), self.tx.stream_no))


class Tokens:
    """ghost for the assumed contract of secrets.token_bytes: every draw returns a value no earlier draw returned"""

    n = 0

    @staticmethod
    def draw(k):
        Tokens.n += 1
        return Tokens.n.to_bytes(k, "big")


BURSTS = {
    "voice_header": "VoiceLCHeader.GroupVoiceChannelUser", "terminator": "TerminatorWithLC.GroupVoiceChannelUser",
    "data_header_confirmed": "DataHeader.DataPacketConfirmed", "data_header_unconfirmed": "DataHeader.DataPacketUnconfirmed", "data_header_response": "DataHeader.ResponsePacket",
    "data_header_short": "DataHeader.ShortDataDefined", "preamble": "CSBK.PreambleCSBK", "csbk_other": "CSBK.BSOutboundActivation",
    "rate12": "Rate12.Unconfirmed", "rate34": "Rate34.Unconfirmed", "rate1": "Rate1.Unconfirmed",
}


class FewFlags:
    """view of the verification context in which the payload flags that cannot matter to the tracker are literals (0): keeps
    the path count additive; the flags the tracker reads (response requested) and all integer fields stay symbolic"""

    KEEP = ("a",)

    def __init__(self, vc):
        self._vc = vc

    def __getattr__(self, k):
        return getattr(self._vc, k)

    def bit(self, name):
        return self._vc.bit(name) if name in self.KEEP else 0

    def flag(self, name):
        return self._vc.flag(name) if name in self.KEEP else False


def make_burst(vc, kind):
    """(parser of a parseable burst of the alphabet, contents symbolic, obtained from what the library itself serialises - a
    tracker marks up the burst object it is given, so each tracker gets its own parse of the same octets;  the PDU the burst
    carries or None for voice)"""
    if kind == "voice_sync":
        v = vc.bits(216, "v")
        w = v[:108] + SyncPatterns.BsSourcedVoice.as_bits() + v[108:]
        return (lambda: Burst.from_bits(w, BurstTypes.Vocoder)), None
    if kind == "voice_emb":
        v = vc.bits(216, "v")
        e = EmbeddedSignalling(colour_code=vc.uint(4, "ecc"), preemption_and_power_control_indicator=vc.bit("pi"), link_control_start_stop=vc.uint(2, "lcss")).as_bits()
        w = v[:108] + e[:8] + vc.bits(32, "mid") + e[8:] + v[108:]
        if not Burst.from_bits(w, BurstTypes.Vocoder).has_emb:  # (the 48 centre bits happen to be a SYNC pattern: another letter of the alphabet)
            raise PathEnd()
        return (lambda: Burst.from_bits(w, BurstTypes.Vocoder)), None
    p, dt, typed = c01_payload(FewFlags(vc), BURSTS[kind])
    b = Burst(burst_type=BurstTypes.DataAndControl)
    b.has_emb = False
    b.sync_or_embedded_signalling = SyncPatterns.BsSourcedData
    b.slot_type = SlotType(colour_code=vc.uint(4, "cc"), data_type=dt)
    b.data = p
    if dt == DataTypes.Rate34Data:
        blk = p.as_bits()
        t = Trellis34.bits_to_tribits(blk)
        # (the block is decoded by the burst parser and once per tracker below)
        trellis_contracts.GHOST["queue"] = [dict(vc=vc, trib=t, points=Trellis34.tribits_to_points(t)) for _ in range(3)]
    raw = b.as_bytes()
    return (lambda: Burst.from_bytes(raw)), p


class _Renamed:
    """prefixes input names (the pre-state header and the incoming burst are built by the same builders)"""

    def __init__(self, vc, prefix):
        self._vc, self._p = vc, prefix

    def __getattr__(self, k):
        f = getattr(self._vc, k)
        if k in ("bit", "flag", "uint", "bits", "bytes_", "pick"):
            return lambda *a, **kw: f(*([a[0], self._p + a[1]] if k in ("uint", "bits", "bytes_") else [self._p + a[0]] + list(a[1:])), **kw)
        return f


def _literal_bursts():
    """three literal 33-octet bursts (built once, at import, by the library's own assembly idiom): histories of length one
    before the burst under test - whatever the tracker keeps about earlier bursts in state this contract knows nothing of
    is then part of the pre-state"""
    from okdmr.dmrlib.etsi.layer2.elements.data_packet_formats import DataPacketFormats
    from okdmr.dmrlib.etsi.layer2.elements.sap_identifier import SAPIdentifier
    from okdmr.dmrlib.etsi.layer2.elements.flcos import FLCOs
    from okdmr.dmrlib.etsi.layer2.elements.feature_set_ids import FeatureSetIDs

    def asm(pdu, dt):
        b = Burst(burst_type=BurstTypes.DataAndControl)
        b.has_emb = False
        b.sync_or_embedded_signalling = SyncPatterns.BsSourcedData
        b.slot_type = SlotType(colour_code=1, data_type=dt)
        b.data = pdu
        return b.as_bytes()

    from bitarray import bitarray
    from okdmr.dmrlib.etsi.layer3.elements.service_options import ServiceOptions

    flc = FullLinkControl(protect_flag=0, flco=FLCOs.GroupVoiceChannelUser, fid=FeatureSetIDs.StandardizedFID, crc=bitarray("0" * 24), service_options=ServiceOptions(), group_address=9, source_address=2308155)
    from okdmr.dmrlib.etsi.layer2.elements.full_message_flag import FullMessageFlag

    hdr = DataHeader(dpf=DataPacketFormats.DataPacketUnconfirmed, sap_identifier=SAPIdentifier.ShortData, llid_destination=1, llid_source=2, blocks_to_follow=2, pad_octet_count=0, is_group=0,
                     is_response_requested=0, full_message_flag=FullMessageFlag(1), fragment_sequence_number=0)
    return {"voice_header": asm(flc, DataTypes.VoiceLCHeader), "data_header": asm(hdr, DataTypes.DataHeader), "stray_block": asm(Rate12Data(data=bytes(range(12))), DataTypes.Rate12Data)}


try:
    PRELUDE = _literal_bursts()
except Exception:  # (a tree on which the builders fail: the preludes are skipped, the checks themselves will say why)
    PRELUDE = {}


def pre_values(vc, state, nblocks, lvb, cblocks):
    """an arbitrary tracker state within the invariant INV (proved preserved below):  type is the open transmission kind;
    Idle => no header;  Voice => the header is a full LC;  Data => no header yet (opened by a CSBK) or a data header that is
    among the blocks;  blocks = data PDUs;  finished is False;  counters, confirmed flag, last voice burst label and rx
    sequence arbitrary (symbolic)"""
    kind = TT[state.split("+")[0]]
    v = dict(type=kind, exp=vc.uint(9, "exp"), rcv=vc.uint(9, "rcv"), confirmed=vc.fork(vc.flag("confirmed")), lvb=VoiceBursts[lvb], rxseq=vc.uint(8, "rxseq"), header=None)
    blocks = [Rate12Data(data=(bytes([17 * i + 3] * 12) if cblocks else vc.bytes_(12, "blk%d" % i))) for i in range(nblocks)]
    if kind == TT.VoiceTransmission:
        v["header"] = build_flc(_Renamed(FewFlags(vc), "h_"), "GroupVoiceChannelUser", 24)
    elif kind == TT.DataTransmission:
        hdr = state.split("+")[1]
        v["header"] = None if hdr == "none" else build_header(_Renamed(FewFlags(vc), "h_"), hdr)
        blocks = ([v["header"]] if v["header"] is not None else []) + blocks
    v["blocks"] = blocks
    return v


def install(ts, v):
    tx = ts.transmission
    tx.type, tx.blocks_expected, tx.blocks_received, tx.confirmed = v["type"], v["exp"], v["rcv"], v["confirmed"]
    tx.last_voice_burst, tx.header, tx.blocks = v["lvb"], v["header"], list(v["blocks"])
    ts.rx_sequence = v["rxseq"]


DATA_PDU = ("data_header_confirmed", "data_header_unconfirmed", "data_header_response", "data_header_short", "preamble", "csbk_other", "rate12", "rate34", "rate1")
PDU_CLASS = {"data_header": DataHeader, "preamble": CSBK, "csbk_other": CSBK, "rate12": Rate12Data, "rate34": Rate34Data, "rate1": Rate1Data}


def pdu_class(kind):
    return PDU_CLASS["data_header" if kind.startswith("data_header") else kind]


@contract("Timeslot.process_burst", "okdmr.dmrlib.transmission.timeslot:Timeslot.process_burst", ["C08"],
          stubs=["BitCrcRegister._process_bits", "Trellis34.points_to_tribits", "BPTC19696.encode", "BPTC19696.deinterleave_data_bits"])
def one_burst(vc, state, nblocks, lvb, burst, timeslot, cblocks=False, diff=True, prelude=None):
    import secrets

    real_token, secrets.token_bytes, Tokens.n = secrets.token_bytes, Tokens.draw, 0
    try:
        _one_burst(vc, state, nblocks, lvb, burst, timeslot, cblocks, diff, prelude)
    finally:
        secrets.token_bytes = real_token


def _one_burst(vc, state, nblocks, lvb, burst, timeslot, cblocks, diff, prelude=None):
    pv = pre_values(vc, state, nblocks, lvb, cblocks)
    parse, pdu = make_burst(vc, burst)
    rec = Rec()
    term = Terminal(dmrid=2308155, observers=[Raising(), rec, Raising()])
    ts = term.timeslots[timeslot]
    tx = rec.tx = ts.transmission
    if prelude is not None and prelude not in PRELUDE:
        from pyvc.core import Undecided

        raise Undecided("the literal prelude bursts could not be built on this tree")
    if prelude in PRELUDE:
        term.process_incoming_burst(Burst.from_bytes(PRELUDE[prelude]), timeslot)
        del rec.ev[:]
        ts.reset_rx_sequence = False
    install(ts, pv)
    other = term.timeslots[3 - timeslot]
    other_state = (other.transmission.type, other.rx_sequence, other.transmission.stream_no, other.transmission.header, list(other.transmission.blocks))
    pre_stream = tx.stream_no
    out = term.process_incoming_burst(parse(), timeslot)  # (an exception is a failed obligation: processing never fails)
    ev = rec.ev
    # --- event discipline, replayed against the ghost 'open transmission kind' / 'PDUs since the start'
    open_kind = None if pv["type"] == TT.Idle else pv["type"]
    ok_order = True
    for e in ev:
        if e[0] == "start":
            open_kind = e[1]
        else:
            if open_kind != e[1]:
                ok_order = False
            open_kind = None
    vc.prove("ended_only_after_an_open_start_of_the_same_kind", ok_order)
    # (a transmission may be dropped without an end event - the statement does not claim every start gets an end - but the
    # tracker never claims an open transmission of a kind that was not started)
    vc.prove("tracker_type_is_idle_or_the_open_kind", tx.type == TT.Idle or tx.type == open_kind)
    is_pdu = burst in DATA_PDU
    is_hdr = burst.startswith("data_header") or burst == "voice_header"
    for i, e in enumerate(ev):
        if e[0] != "end":
            continue
        interrupted = i + 1 < len(ev)  # ended because this burst opens another transmission: the burst is not part of it
        started_here = any(x[0] == "start" for x in ev[:i])
        base = [] if started_here else pv["blocks"]
        handed = e[3]
        extra = handed[len(base):]
        vc.prove("end_hands_over_the_blocks_received_since_the_start",
                 len(handed) >= len(base) and all(x is y for x, y in zip(handed, base))
                 and (extra == [] if (interrupted or not is_pdu) else (len(extra) == 1 and isinstance(extra[0], pdu_class(burst)))))
        if is_hdr and not interrupted:  # a repeated header replaces the header: the one handed over is the latest received
            vc.prove("end_hands_over_the_header", isinstance(e[2], type(pdu)) and vc.eq(e[2].as_bits(), pdu.as_bits())
                     and (burst == "voice_header" or e[2] is handed[-1]))
        else:
            vc.prove("end_hands_over_the_header", e[2] is not None and e[2] is pv["header"])
        vc.prove("stream_id_is_that_of_the_transmission_until_its_end", e[4] == (ev[i - 1][4] if started_here else pre_stream))
        after = [x for x in ev[i + 1:]]
        vc.prove("fresh_stream_id_after_an_end", tx.stream_no != e[4] and all(x[4] != e[4] for x in after))
        if not after:
            vc.prove("idle_after_an_end", tx.type == TT.Idle and tx.header is None and tx.blocks == [])
    # --- the invariant INV the pre-state was drawn from holds again (induction over the burst sequence)
    inv = tx.finished is False and isinstance(tx.blocks, list)
    if tx.type == TT.Idle:
        inv = inv and tx.header is None
    elif tx.type == TT.VoiceTransmission:
        inv = inv and isinstance(tx.header, FullLinkControl)
    else:
        inv = inv and (tx.header is None or (isinstance(tx.header, DataHeader) and any(x is tx.header for x in tx.blocks)))
    inv = inv and all(isinstance(x, (DataHeader, CSBK, Rate12Data, Rate34Data, Rate1Data)) for x in tx.blocks)
    vc.prove("invariant_preserved", inv)
    if not ev:
        # no notification: the PDUs collected so far are kept, the new one (if the burst carries one) is added
        # (an idle tracker opens nothing for a lone data block; whatever it holds is discarded at the next start)
        kept = len(tx.blocks) >= len(pv["blocks"]) and all(x is y for x, y in zip(tx.blocks, pv["blocks"]))
        if tx.type != TT.Idle:
            vc.prove("blocks_are_kept_between_notifications", kept and len(tx.blocks) == len(pv["blocks"]) + (1 if is_pdu else 0))
            vc.prove("stream_id_is_kept_between_notifications", tx.stream_no == pre_stream)
    elif ev[-1][0] == "start":
        vc.prove("blocks_restart_at_a_start", len(tx.blocks) == (1 if is_pdu else 0) and tx.stream_no == ev[-1][4] and tx.stream_no != pre_stream)
    # --- voice burst labelling A..F
    if tx.type == TT.VoiceTransmission and pv["type"] == TT.VoiceTransmission and burst in ("voice_sync", "voice_emb"):
        if burst == "voice_sync":
            vc.prove("voice_sync_burst_is_labelled_A", out.voice_burst == VoiceBursts.VoiceBurstA)
        else:
            succ = {"VoiceBurstA": "VoiceBurstB", "VoiceBurstB": "VoiceBurstC", "VoiceBurstC": "VoiceBurstD", "VoiceBurstD": "VoiceBurstE", "VoiceBurstE": "VoiceBurstF", "VoiceBurstF": "VoiceBurstA"}
            if lvb in succ:
                vc.prove("voice_bursts_are_labelled_cyclically", out.voice_burst == VoiceBursts[succ[lvb]])
        vc.prove("last_label_is_remembered", tx.last_voice_burst == out.voice_burst)
    # --- receive sequence numbers
    ended = any(e[0] == "end" for e in ev)
    vc.prove("sequence_number_counts_up_modulo_256", vc.eq(out.sequence_no, (pv["rxseq"] + 1) & 255))
    vc.prove("sequence_restarts_after_an_end", vc.eq(ts.rx_sequence, 0) if ended else vc.eq(ts.rx_sequence, (pv["rxseq"] + 1) & 255))
    vc.prove("reset_flag_is_consumed", ts.reset_rx_sequence is False)
    vc.prove("burst_carries_the_stream_id", out.stream_no == tx.stream_no)
    # --- the other timeslot is a separate tracker
    now = (other.transmission.type, other.rx_sequence, other.transmission.stream_no, other.transmission.header, list(other.transmission.blocks))
    vc.prove("other_timeslot_untouched", now == other_state)
    # --- an observer that raises prevents nothing: the same state and burst with no raising observer produce the same
    # notifications (the recorder above sits between two observers that raise on every notification)
    if diff:
        quiet = Rec()
        term2 = Terminal(dmrid=2308155, observers=[quiet])
        ts2 = term2.timeslots[timeslot]
        quiet.tx = ts2.transmission
        if prelude in PRELUDE:
            term2.process_incoming_burst(Burst.from_bytes(PRELUDE[prelude]), timeslot)
            del quiet.ev[:]
            ts2.reset_rx_sequence = False
        install(ts2, pv)
        out2 = term2.process_incoming_burst(parse(), timeslot)
        qe = quiet.ev
        vc.prove("events_reach_observers_despite_raising_ones", len(ev) == len(qe) and all(
            x[0] == y[0] and x[1] == y[1] and x[2] is y[2] or (x[2] is not None and y[2] is not None and type(x[2]) is type(y[2])) for x, y in zip(ev, qe))
            and all((x[3] is None) == (y[3] is None) and (x[3] is None or len(x[3]) == len(y[3])) for x, y in zip(ev, qe)))
        vc.prove("tracker_state_is_the_same_despite_raising_observers", ts2.transmission.type == tx.type and len(ts2.transmission.blocks) == len(tx.blocks)
                 and vc.eq(ts2.rx_sequence, ts.rx_sequence) and out2.voice_burst == out.voice_burst)


def _shapes(tier):
    states = ["Idle", "VoiceTransmission", "DataTransmission+none", "DataTransmission+DataPacketConfirmed", "DataTransmission+DataPacketUnconfirmed"]
    kinds = list(BURSTS) + ["voice_sync", "voice_emb"]
    n = 0
    for s in states:
        if tier == "quick" and s == "DataTransmission+DataPacketUnconfirmed":
            continue
        for k in kinds:
            for nb in (0, 2):
                if tier == "quick" and ((nb and s == "VoiceTransmission") or (not nb and s.startswith("Data") and not k.startswith("rate"))):
                    continue
                # the contents of the collected blocks matter to the closing debug decode of the payload only: symbolic
                # where a data block closes the transmission, literal elsewhere in the quick tier
                cb = bool(nb) and tier == "quick" and not (k.startswith("rate") and s.startswith("Data"))
                lvbs = (["Unknown", "VoiceBurstA", "VoiceBurstC", "VoiceBurstF"] if tier == "quick" else [m.name for m in VoiceBursts]) if (s == "VoiceTransmission" and k in ("voice_sync", "voice_emb")) else ["Unknown"]
                for lvb in lvbs:
                    n += 1
                    yield dict(state=s, nblocks=nb, lvb=lvb, burst=k, timeslot=1 + n % 2, cblocks=cb, prelude=(None, "voice_header", "data_header", "stray_block")[n % 4])


one_burst.shapes = _shapes
one_burst.cost = 30


class _Ev(TransmissionObserverInterface):
    def __init__(self):
        self.ev = []

    def transmission_started(self, transmission_type):
        self.ev.append(("start", transmission_type))

    def data_transmission_ended(self, transmission_header, blocks):
        self.ev.append(("end", TT.DataTransmission))

    def voice_transmission_ended(self, voice_header, blocks):
        self.ev.append(("end", TT.VoiceTransmission))


@contract("TransmissionWatcher.process_burst", "okdmr.dmrlib.transmission.transmission_watcher:TransmissionWatcher.process_burst", ["C08"],
          stubs=["BitCrcRegister._process_bits", "BPTC19696.encode", "BPTC19696.deinterleave_data_bits"],
          note="the layer above the terminals: a burst of the alphabet goes to the terminal of its destination address and to the timeslot it names - "
               "a terminal per destination, created on first use -, every other terminal / timeslot is left alone, a burst without a destination is ignored; "
               "end_all_transmissions leaves every tracker idle.  Destination addresses are literals (the terminal table is a run-time dict), contents symbolic")
def watcher_one(vc, dest, known, timeslot, kind):
    from okdmr.dmrlib.transmission.transmission_watcher import TransmissionWatcher
    from okdmr.dmrlib.etsi.layer2.elements.data_packet_formats import DataPacketFormats
    from okdmr.dmrlib.etsi.layer2.elements.sap_identifier import SAPIdentifier
    from okdmr.dmrlib.etsi.layer2.elements.full_message_flag import FullMessageFlag

    rec = _Ev()
    w = TransmissionWatcher(observers=[rec])
    for d in known:
        w.ensure_terminal(d)
    before = {d: (t, dict(t.timeslots)) for d, t in w.terminals.items()}
    if kind == "data_header":
        pdu = DataHeader(dpf=DataPacketFormats.DataPacketUnconfirmed, sap_identifier=SAPIdentifier.ShortData, llid_destination=dest, llid_source=vc.uint(24, "src"),
                         blocks_to_follow=1 + vc.uint(3, "btf"), pad_octet_count=vc.uint(4, "poc"), is_group=vc.bit("g"), is_response_requested=0, full_message_flag=FullMessageFlag(1), fragment_sequence_number=0)
        dt = DataTypes.DataHeader
    else:  # a voice LC header: carries no destination the watcher could read (group address lives in the LC, not in the burst attributes)
        pdu = None
        dt = DataTypes.VoiceLCHeader
    if pdu is None:
        raw = PRELUDE["voice_header"]
    else:
        b = Burst(burst_type=BurstTypes.DataAndControl)
        b.has_emb = False
        b.sync_or_embedded_signalling = SyncPatterns.BsSourcedData
        b.slot_type = SlotType(colour_code=vc.uint(4, "cc"), data_type=dt)
        b.data = pdu
        raw = b.as_bytes()
    burst = Burst.from_bytes(raw)
    burst.timeslot = timeslot
    out = w.process_burst(burst)
    if kind != "data_header" or dest == 0:
        vc.prove("burst_without_destination_is_ignored", out is None and set(w.terminals) == set(known) and not rec.ev)
    else:
        vc.prove("returns_the_processed_burst", out is burst)
        vc.prove("one_terminal_per_destination_created_on_first_use", set(w.terminals) == set(known) | {dest} and w.terminals[dest].id == dest)
        vc.prove("known_terminals_are_kept", all(w.terminals[d] is t and w.terminals[d].timeslots == ts for d, (t, ts) in before.items()))
        tx = w.terminals[dest].timeslots[timeslot].transmission
        vc.prove("burst_reaches_the_timeslot_it_names", tx.type is TT.DataTransmission and tx.header is not None)
        other_ts = w.terminals[dest].timeslots[3 - timeslot].transmission
        vc.prove("the_other_timeslot_and_other_terminals_stay_idle", other_ts.type is TT.Idle and all(s.transmission.type is TT.Idle for d, t in w.terminals.items() if d != dest for s in t.timeslots.values()))
        vc.prove("observers_of_the_watcher_are_told", rec.ev == [("start", TT.DataTransmission)])
    w.end_all_transmissions()
    vc.prove("end_all_transmissions_leaves_every_tracker_idle", all(s.transmission.type is TT.Idle for t in w.terminals.values() for s in t.timeslots.values()))
    if kind == "data_header" and dest != 0:
        vc.prove("an_open_transmission_is_ended_exactly_once", rec.ev == [("start", TT.DataTransmission), ("end", TT.DataTransmission)])


watcher_one.shapes = lambda tier: [dict(dest=d, known=k, timeslot=ts, kind=kind) for d in (1, 2308155) for k in ([], [1], [1, 77]) for ts in (1, 2) for kind in ("data_header", "voice_header")]
watcher_one.budget_s = 120
one_burst.budget_s = 600
