"""C11 contracts"""
from pyvc.contract import contract
from spec import gf256 as F
import okdmr.dmrlib.etsi.fec.reed_solomon_12_9_4 as rsm

RS = rsm.ReedSolomon1294


def _lsb_bits(vc, x):
    if vc.mode == "native":
        return [(int(x) >> i) & 1 for i in range(8)]
    from pyvc.values import SInt
    x = SInt.lift(x)
    return [x.bit(i) for i in range(8)]


def _val(vc, bits):
    if vc.mode == "native":
        return sum(int(b) << i for i, b in enumerate(bits))
    from pyvc.values import SInt
    return SInt(bits).n()


@contract("ReedSolomon1294.log_multiply", "okdmr.dmrlib.etsi.fec.reed_solomon_12_9_4:ReedSolomon1294.log_multiply", ["C11"])
def log_multiply(vc):
    a = vc.uint(8, "a"); b = vc.uint(8, "b")
    r = RS.log_multiply(a, b)
    if vc.mode == "native":
        vc.prove("equals_gf256_product", r == F.mul(a, b))
        return
    from pyvc.sfun import SFun
    want = SFun.map(F.mul, a, b)
    same = SFun.map(lambda x, y: 1 if x == y else 0, r if not isinstance(r, int) else SFun.of(r), want)
    vc.prove("equals_gf256_product", same.to_bit() if isinstance(same, SFun) else same)


log_multiply.shapes = lambda tier: [dict()]


def _mul_contract(a, b):
    """what callers see of log_multiply (first operand is a literal in generate)"""
    from pyvc.values import SInt
    if isinstance(b, int):
        return F.mul(a, b)
    assert isinstance(a, int)
    b = SInt.lift(b)
    return SInt(F.mul_const_bits(a, [b.bit(i) for i in range(8)])).n()


@contract("ReedSolomon1294.generate", "okdmr.dmrlib.etsi.fec.reed_solomon_12_9_4:ReedSolomon1294.generate", ["C11"], stubs=["ReedSolomon1294.log_multiply"])
def generate(vc):
    d = vc.bytes_(9, "d"); m = vc.bytes_(3, "mask")
    if vc.mode == "symbolic":
        real = RS.__dict__["log_multiply"]
        RS.log_multiply = staticmethod(_mul_contract)
        try:
            w = RS.generate(d, m)
        finally:
            RS.log_multiply = real
    else:
        w = RS.generate(d, m)
    vc.prove("length", len(w) == 12)
    vc.prove("systematic", vc.eq(w[:9], d))
    cw = [_lsb_bits(vc, w[i]) for i in range(9)] + [[x ^ y for x, y in zip(_lsb_bits(vc, w[9 + i]), _lsb_bits(vc, m[i]))] for i in range(3)]
    for j in (1, 2, 3):
        S = [0] * 8
        for i, c in enumerate(cw):
            t = F.mul_const_bits(F.power(2, j * (11 - i)), c)
            S = [x ^ y for x, y in zip(S, t)]
        vc.prove(f"syndrome_alpha^{j}_is_zero", vc.eq(_val(vc, S), 0))
    vc.prove("check_accepts_generated", RS.check(w, m) if vc.mode == "native" else _check_with_stub(w, m))


def _check_with_stub(w, m):
    real = RS.__dict__["log_multiply"]
    RS.log_multiply = staticmethod(_mul_contract)
    try:
        return RS.check(w, m)
    finally:
        RS.log_multiply = real


generate.shapes = lambda tier: [dict()]
