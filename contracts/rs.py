"""C11: Reed-Solomon (12,9,4) over GF(2^8) mod x^8+x^4+x^3+x^2+1.  Functions under contract: ReedSolomon1294.log_multiply,
xor_bytes, generate, check."""
import itertools

from pyvc.contract import contract, stub
from spec import gf256 as F
import okdmr.dmrlib.etsi.fec.reed_solomon_12_9_4 as rsm

RS = rsm.ReedSolomon1294


def lsb_bits(vc, x):
    return vc.bitlist(x, 8, msb_first=False)


@contract("ReedSolomon1294.log_multiply", "okdmr.dmrlib.etsi.fec.reed_solomon_12_9_4:ReedSolomon1294.log_multiply", ["C11", "C19"])
def log_multiply(vc):
    """all 65 536 operand pairs at once: both operands symbolic, the log / antilog tables point-wise indexable, compared
    with a from-scratch carry-less product reduced modulo 0x11D"""
    a = vc.uint(8, "a")
    b = vc.uint(8, "b")
    r = RS.log_multiply(a, b)
    if vc.mode == "native":
        vc.prove("equals_gf256_product", r == F.mul(a, b))
        return
    from pyvc.sfun import SFun

    want = SFun.map(F.mul, a, b)
    same = SFun.map(lambda x, y: 1 if x == y else 0, r if not isinstance(r, int) else SFun.of(r), want)
    vc.prove("equals_gf256_product", same.to_bit() if isinstance(same, SFun) else same)


@stub("ReedSolomon1294.log_multiply", "okdmr.dmrlib.etsi.fec.reed_solomon_12_9_4:ReedSolomon1294.log_multiply", provided_by="ReedSolomon1294.log_multiply")
def mul_stub(a, b):
    """what callers see: the GF(2^8) product (a GF(2)-linear map of the symbolic operand when the other is a literal)"""
    from pyvc.values import SInt
    from pyvc.core import Undecided

    if isinstance(a, int) and isinstance(b, int):
        return F.mul(a, b)
    if not isinstance(a, int):
        a, b = b, a
    if not isinstance(a, int):
        raise Undecided("call[log_multiply]: both operands symbolic")
    if not 0 <= a <= 255:
        raise Undecided("call[log_multiply].pre: operand outside 0..255")
    b = SInt.lift(b)
    if b.width() > 8:
        raise Undecided("call[log_multiply].pre: operand wider than 8 bits")
    return SInt(F.mul_const_bits(a, [b.bit(i) for i in range(8)])).n()


def syndromes(vc, octets):
    """S_j = sum_i c_i * alpha^(j*(11-i)), j = 1..3 (alpha = 2): zero iff the word is a multiple of (x-a)(x-a^2)(x-a^3)"""
    out = []
    for j in (1, 2, 3):
        Sj = [0] * 8
        for i, c in enumerate(octets):
            t = F.mul_const_bits(F.power(2, j * (11 - i)), c)
            Sj = [x ^ y for x, y in zip(Sj, t)]
        out.append(vc.from_bits(Sj, msb_first=False))
    return out


@contract("ReedSolomon1294.generate", "okdmr.dmrlib.etsi.fec.reed_solomon_12_9_4:ReedSolomon1294.generate", ["C11", "C19"], stubs=["ReedSolomon1294.log_multiply"])
def generate(vc):
    d = vc.bytes_(9, "d")
    m = vc.bytes_(3, "mask")
    w = RS.generate(d, m)
    vc.prove("returns_12_octets", len(w) == 12)
    vc.prove("message_followed_by_parity", vc.eq(w[:9], d))
    cw = [lsb_bits(vc, w[i]) for i in range(9)] + [[x ^ y for x, y in zip(lsb_bits(vc, w[9 + i]), lsb_bits(vc, m[i]))] for i in range(3)]
    S = syndromes(vc, cw)
    for j in range(3):
        vc.prove("syndrome_at_alpha^%d_is_zero_with_mask_removed" % (j + 1), vc.eq(S[j], 0))
    vc.prove("check_accepts_generated_word", RS.check(w, m))
    w0 = RS.generate(d)
    vc.prove("default_mask_is_zero", vc.eq(w0, RS.generate(d, b"\x00\x00\x00")))


@contract("ReedSolomon1294.check", "okdmr.dmrlib.etsi.fec.reed_solomon_12_9_4:ReedSolomon1294.check", ["C11", "C19"], stubs=["ReedSolomon1294.log_multiply"])
def check(vc):
    """12 free octets, free mask: accepted iff all three syndromes of (word xor (0..0 | mask)) vanish"""
    w = vc.bytes_(12, "w")
    m = vc.bytes_(3, "mask")
    ok = RS.check(w, m)
    cw = [lsb_bits(vc, w[i]) for i in range(9)] + [[x ^ y for x, y in zip(lsb_bits(vc, w[9 + i]), lsb_bits(vc, m[i]))] for i in range(3)]
    S = syndromes(vc, cw)
    allzero = vc.and_(*[vc.eq(s, 0) for s in S])
    if ok:
        vc.prove("accepted_word_has_zero_syndromes", allzero)
    else:
        vc.prove("rejected_word_has_a_nonzero_syndrome", vc.not_(allzero))


@contract("ReedSolomon1294.distance_lemma", "okdmr.dmrlib.etsi.fec.reed_solomon_12_9_4:ReedSolomon1294.generate", ["C11"], stubs=["ReedSolomon1294.log_multiply"],
          note="lemma on the GF(2)-linear parity map extracted from the real generate(): every corruption of 1..3 octets is rejected by check")
def distance(vc):
    if vc.mode == "native":
        cols = []
        for j in range(72):
            d = bytearray(9)
            d[j // 8] = 1 << (j % 8)
            p = RS.generate(bytes(d))[9:]
            cols.append(int.from_bytes(p, "little"))
        lin = RS.generate(bytes(9)) == bytes(12)
    else:
        d = vc.bytes_(9, "d")
        w = RS.generate(d, b"\x00\x00\x00")
        from pyvc import core

        # premise of the lemma: generate() is ONE GF(2)-linear map of the message - no branch of it may depend on the message
        vc.prove("generate_takes_one_path_for_all_messages", len(core.C.decisions) == 0)
        if core.C.decisions:
            return
        ins = sum([lsb_bits(vc, d[i]) for i in range(9)], [])
        outs = sum([lsb_bits(vc, w[9 + i]) for i in range(3)], [])
        rows, consts = vc.linear_map(outs, ins)
        lin = not any(consts)
        cols = [sum(((rows[i] >> j) & 1) << i for i in range(24)) for j in range(72)]
    vc.prove("parity_is_linear_in_the_message", lin)
    # H = [P | I24]: column of message bit j is P's column, column of parity bit i is the unit vector e_i
    hcols = cols + [1 << i for i in range(24)]
    bad = None
    for s in (1, 2, 3):
        for pos in itertools.combinations(range(12), s):
            basis = []
            for o in pos:
                for b in range(8):
                    v = hcols[8 * o + b]
                    for x in basis:
                        v = min(v, v ^ x)
                    if v == 0:
                        bad = bad or pos
                    else:
                        basis.append(v)
    vc.prove("every_1_to_3_octet_corruption_changes_the_syndrome", bad is None, note=dict(undetected_positions=bad))


# (on the current tree each of these is 1-3 paths: generate / check are straight-line over GF(256) tables.  Budgets keep a change
# that makes the division loop data-dependent from running for minutes; what the explored paths refute stands)
for _c in (generate, check, distance):
    _c.max_paths = 200
    _c.budget_s = 90
distance.max_paths = 8
