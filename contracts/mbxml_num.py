"""C14: MBXML variable-length numbers.  Functions under contract: MBXML.read_uintvar / write_uintvar / read_sintvar /
write_sintvar (symbolic 32 / 31-bit values, the bin() model forks over the bit length), write_infotime (symbolic calendar
fields); bounded native contracts for the float codecs and latitude / longitude (floats are outside the engine)."""
from pyvc.contract import contract, stub
from okdmr.dmrlib.motorola.mbxml import MBXML

_real_write_uintvar = MBXML.__dict__["write_uintvar"].__func__


@stub("MBXML.write_uintvar", "okdmr.dmrlib.motorola.mbxml:MBXML.write_uintvar", provided_by="MBXML.uintvar")
def write_uintvar_by_contract(cls, value):
    """what callers see [contract MBXML.uintvar]: the canonical encoding - as many septets as the value needs, most
    significant first, continuation bit on all but the last - which read_uintvar maps back to the value.  (The real function
    goes through bin(): one path per bit length; the contract needs one per septet count.)"""
    if isinstance(value, int):
        return _real_write_uintvar(cls, value)
    from pyvc.values import SInt, SBytes, as_sint

    v = SInt.lift(as_sint(value))
    if len(v.bits) > 32 and bool((v >> 32) != 0):
        raise AssertionError("write_uintvar cannot write integers bigger than 4294967295")
    n = 1
    while n < 5 and bool((v >> (7 * n)) != 0):  # (forced when the caller's precondition fixes the magnitude)
        n += 1
    septs = [(v >> (7 * j)) & 0x7F for j in range(n)]
    return SBytes([(s | 0x80) if j else s for j, s in reversed(list(enumerate(septs)))]).n()


def canonical_uintvar(v):
    """spec (concrete): shortest big-endian septet sequence, continuation bit on all but the last octet"""
    out = [v & 0x7F]
    v >>= 7
    while v:
        out.append((v & 0x7F) | 0x80)
        v >>= 7
    return bytes(reversed(out))


def canonical_sintvar(v):
    """spec (concrete): sign in bit 6 of the first octet, 6 magnitude bits there, 7 in every following octet, shortest form"""
    m, neg = abs(v), v < 0
    low = []
    while m >= 64:
        low.append(m & 0x7F)
        m >>= 7
    octets = [m | (0x40 if neg else 0)] + list(reversed(low))
    return bytes([(o | 0x80) if i < len(octets) - 1 else o for i, o in enumerate(octets)])


def shortest_length_clause(vc, v, first_payload_bits, n, most=5):
    """the octet count n (a literal on each path) is the one of the canonical form: the first octet carries
    first_payload_bits bits of the value and every further octet seven, so a k+1-th octet is present exactly when the value
    does not fit in first_payload_bits + 7 (k - 1) bits.  Stated on the value, not on how the code under contract happened to
    fork on it (bin() of the value, a shift loop, comparisons with thresholds ...)."""
    lsb = vc.bitlist(v, 32, msb_first=False)
    at_least = lambda m: vc.or_(*lsb[m:])  # v >= 2^m  <=>  some bit at position m or above is set (v < 2^32)
    return vc.and_(1 <= n <= most, *[vc.iff(at_least(first_payload_bits + 7 * (k - 1)), n > k) for k in range(1, most)])


@contract("MBXML.uintvar", "okdmr.dmrlib.motorola.mbxml:MBXML.write_uintvar", ["C14", "C15", "C19"])
def uintvar(vc, suffix):
    v = vc.uint(32, "v")
    w = MBXML.write_uintvar(v)
    tail = vc.bytes_(suffix, "tail")
    r, idx = MBXML.read_uintvar(w + tail, 0)
    vc.prove("read_returns_the_written_value", vc.eq(r, v))
    vc.prove("read_consumes_exactly_the_written_octets", idx == len(w))
    if vc.mode == "native":
        vc.prove("canonical_shortest_septet_sequence", w == canonical_uintvar(v))
    else:
        vc.prove("canonical_shortest_septet_sequence", vc.and_(shortest_length_clause(vc, v, 7, len(w)), *[vc.eq(vc.bitlist(w[i], 8)[0], 1 if i < len(w) - 1 else 0) for i in range(len(w))]))


uintvar.shapes = lambda tier: [dict(suffix=0), dict(suffix=2)]


@contract("MBXML.sintvar", "okdmr.dmrlib.motorola.mbxml:MBXML.write_sintvar", ["C14", "C19"])
def sintvar(vc, negative):
    mag = vc.uint(31, "mag")
    if negative:
        vc.assume(vc.not_(vc.eq(mag, 0)))
    v = -mag if negative else mag
    w = MBXML.write_sintvar(v)
    r, idx, sign = MBXML.read_sintvar(w, 0)
    vc.prove("read_returns_the_written_value", vc.eq(r, v))
    vc.prove("read_consumes_exactly_the_written_octets", idx == len(w))
    vc.prove("sign_read_back", sign == (-1 if negative else 1))
    if vc.mode == "native":
        vc.prove("canonical_shortest_septet_sequence", w == canonical_sintvar(v))
    else:
        vc.prove("canonical_shortest_septet_sequence", shortest_length_clause(vc, mag, 6, len(w)))


sintvar.shapes = lambda tier: [dict(negative=False), dict(negative=True)]


class _Cal:
    """stand-in for datetime with (symbolic) calendar fields; isinstance(x, datetime) is satisfied by subclassing"""


@contract("MBXML.write_infotime", "okdmr.dmrlib.motorola.mbxml:MBXML.write_infotime", ["C14", "C19"])
def infotime(vc):
    """5 octets: year(14) month(4) day(5) hour(5) minute(6) second(6) - the decoding used for the XML view reads the same
    fields back by shifts and masks"""
    from datetime import datetime

    class Cal(datetime):
        def __new__(cls, fields):
            o = datetime.__new__(cls, 2000, 1, 1)
            o._f = fields
            return o

        year = property(lambda s: s._f["year"])
        month = property(lambda s: s._f["month"])
        day = property(lambda s: s._f["day"])
        hour = property(lambda s: s._f["hour"])
        minute = property(lambda s: s._f["minute"])
        second = property(lambda s: s._f["second"])

    y = vc.uint(7, "y")
    vc.assume(y <= 99)
    f = dict(year=2000 + y, month=vc.uint(4, "mo"), day=vc.uint(5, "d"), hour=vc.uint(5, "h"), minute=vc.uint(6, "mi"), second=vc.uint(6, "s"))
    vc.assume(vc.and_(f["month"] >= 1, f["month"] <= 12, f["day"] >= 1, f["hour"] <= 23, f["minute"] <= 59, f["second"] <= 59))
    raw = MBXML.write_infotime(Cal(f))
    vc.prove("five_octets", len(raw) == 5)
    if vc.mode == "native":
        n = int.from_bytes(raw, "big")
    else:
        from pyvc.values import s_int_from_bytes

        n = s_int_from_bytes(raw, "big")
    vc.prove("year_read_back", vc.eq(n >> 26, f["year"]))
    vc.prove("month_read_back", vc.eq((n >> 22) & 0xF, f["month"]))
    vc.prove("day_read_back", vc.eq((n >> 17) & 0x1F, f["day"]))
    vc.prove("hour_read_back", vc.eq((n >> 12) & 0x1F, f["hour"]))
    vc.prove("minute_read_back", vc.eq((n >> 6) & 0x3F, f["minute"]))
    vc.prove("second_read_back", vc.eq(n & 0x3F, f["second"]))


@contract("MBXML.floatvar_bounded", "okdmr.dmrlib.motorola.mbxml:MBXML.write_ufloatvar", ["C14"], bounded=True,
          note="floats are outside the engine: native evaluation over (integer boundary set) x (fraction k / 128^p), p = 1..3, both signs")
def floats(vc, p, signed):
    if vc.mode != "native":
        return
    ints = [0, 1, 63, 64, 127, 128, 129, 8191, 8192, 16383, 16384, 2097151, 2097152, 268435455, 268435456, 2**31 - 1]
    i = ints[vc.uint(8, "i") % len(ints)]
    k = vc.uint(7 * p, "k")
    if vc.uint(2, "edge") == 0:
        k = [0, 1, 127, 128 ** (p - 1), 128 ** p - 1, 128 ** (p - 1) * 5][k % 6] % (128 ** p)
    neg = signed and bool(vc.bit("neg"))
    value = (i + k / 128 ** p) * (-1 if neg else 1)
    if not signed:
        i = min(i, 2**32 - 1)
        w = MBXML.write_ufloatvar(value, p)
        r, idx = MBXML.read_ufloatvar(w, 0)
    else:
        w = MBXML.write_sfloatvar(value, p)
        r, idx = MBXML.read_sfloatvar(w, 0)
    vc.prove("float_read_back_equals_written_value", r == value, note=dict(value=value, precision=p, written=w.hex(), read=r))
    vc.prove("read_consumes_exactly_the_written_octets", idx == len(w))


floats.shapes = lambda tier: [dict(p=p, signed=s) for p in (1, 2, 3) for s in (False, True)]
floats.native_random = 3000


@contract("MBXML.latlong_bounded", "okdmr.dmrlib.motorola.mbxml:MBXML.write_latitude", ["C14"], bounded=True,
          note="latitude / longitude writers against the decoding formulas of the XML view (round(raw*90/2^31, 6), round(raw*360/2^32, 6)); native grid + random")
def latlong(vc, which):
    if vc.mode != "native":
        return
    micro = vc.uint(28, "micro")
    if which == "lat":
        x = (micro % 90_000_001) / 1e6
        if vc.bit("neg"):
            x = -x
        if vc.uint(3, "edge") == 0:
            x = [0.0, 90.0, -90.0, 45.0, -0.000001, 89.999999][micro % 6]
        raw = MBXML.write_latitude(x)
        vc.prove("four_octets", len(raw) == 4)
        back = round(int.from_bytes(raw, "big", signed=x < 0) * 90 / 2**31, 6)
        vc.prove("latitude_decodes_to_the_written_value", back == round(x, 6), note=dict(value=x, raw=raw.hex(), decoded=back))
    else:
        x = (micro % 180_000_000) / 1e6
        if vc.bit("neg"):
            x = -x
        if vc.uint(3, "edge") == 0:
            x = [0.0, 179.999999, -180.0, 90.0, -0.000001, 0.000001][micro % 6]
        raw = MBXML.write_longitude(x)
        vc.prove("four_octets", len(raw) == 4)
        back = round(int.from_bytes(raw, "big", signed=x < 0) * 360 / 2**32, 6)
        vc.prove("longitude_decodes_to_the_written_value", back == round(x, 6), note=dict(value=x, raw=raw.hex(), decoded=back))


latlong.shapes = lambda tier: [dict(which="lat"), dict(which="long")]
latlong.native_random = 2000


@contract("MBXML.xml_view_bounded", "okdmr.dmrlib.motorola.mbxml:MBXMLToken.as_xml", ["C14"], bounded=True,
          note="the decoding formulas AS USED BY the XML view (MBXMLToken.as_xml, one copy per shape element): coordinates and info-time written by the writers, "
               "put into an LRRP report, serialised, parsed and rendered by the library; native grid + random (floats, text)")
def xml_view(vc, shape):
    if vc.mode != "native":
        return
    from xml.dom import minidom
    from datetime import datetime
    from okdmr.dmrlib.motorola.lrrp import LRRP
    from okdmr.dmrlib.motorola.mbxml import MBXMLDocumentIdentifier

    doc = LRRP(document_id=MBXMLDocumentIdentifier.LRRP_TriggeredLocationReport_NCDT)
    doc.parts.append(doc.get_token(name="request-id", value=bytes.fromhex("2468ACE0"), attributes={}, is_request=False))
    if shape == "info-time":
        when = datetime(2000 + vc.uint(7, "y") % 100, 1 + vc.uint(4, "mo") % 12, 1 + vc.uint(5, "d") % 28, vc.uint(5, "h") % 24, vc.uint(6, "mi") % 60, vc.uint(6, "s") % 60)
        doc.parts.append(doc.get_token(name="info-time", value=MBXML.write_infotime(when), attributes={}, is_request=False))
        wire = MBXML.as_bytes(doc)
        dom = minidom.parseString(MBXML.from_bytes(wire)[0].as_xml())
        text = dom.getElementsByTagName("info-time")[0].firstChild.data
        vc.prove("xml_view_shows_the_written_time", text == when.strftime("%Y%m%d%H%M%S"), note=dict(when=str(when), shown=text))
        return
    edge = vc.uint(3, "edge") == 0
    k = vc.uint(3, "k")
    lat = (vc.uint(28, "mlat") % 90_000_001) / 1e6 * (-1 if vc.bit("nlat") else 1)
    lon = (vc.uint(28, "mlon") % 180_000_000) / 1e6 * (-1 if vc.bit("nlon") else 1)
    if edge:
        lat = [0.0, 90.0, -90.0, 45.0, -0.000001, 89.999999, -89.999999, 12.345345][k]
        lon = [0.0, 179.999999, -180.0, 90.0, -0.000001, 0.000001, -179.999999, -74.005974][k]
    la, lo = MBXML.write_latitude(lat), MBXML.write_longitude(lon)
    value = {"point-2d": (la, lo), "circle-2d": (la, lo, 5.5), "point-3d": (la, lo, 120.5)}[shape]
    doc.parts.append(doc.get_token(name=shape, value=value, attributes={}, is_request=False))
    wire = MBXML.as_bytes(doc)
    docs = MBXML.from_bytes(wire)
    vc.prove("document_reserialises", len(docs) == 1 and MBXML.as_bytes(docs[0]) == wire)
    elm = minidom.parseString(docs[0].as_xml()).getElementsByTagName(shape)[0]
    x_lat = float(elm.getElementsByTagName("lat")[0].firstChild.data)
    x_lon = float(elm.getElementsByTagName("long")[0].firstChild.data)
    vc.prove("xml_view_shows_the_written_latitude", x_lat == round(lat, 6), note=dict(written=lat, shown=x_lat, wire=wire.hex()))
    vc.prove("xml_view_shows_the_written_longitude", x_lon == round(lon, 6), note=dict(written=lon, shown=x_lon, wire=wire.hex()))


xml_view.shapes = lambda tier: [dict(shape=s) for s in ("point-2d", "circle-2d", "point-3d", "info-time")]
xml_view.native_random = 1200
