"""C18: P2P and RDAC handshake handlers, by induction over datagrams: ONE datagram from a storage / step pre-state with up to
three peers.  Functions under contract: P2PDatagramProtocol.datagram_received / handle_registration / handle_rdac_request /
handle_dmr_request / handle_ping / get_redirect_packet / packet_is_* / command_get_type, RDACDatagramProtocol.datagram_received
/ step0 .. step14.  Repeater.read_snmp_values (network I/O) is replaced by a stub, as the property's hook note says."""
from pyvc.contract import contract, stub
from okdmr.dmrlib.protocols.hytera.p2p_datagram_protocol import P2PDatagramProtocol as P2P
from okdmr.dmrlib.protocols.hytera.rdac_datagram_protocol import RDACDatagramProtocol as RDAC
from okdmr.dmrlib.storage.repeater_storage import RepeaterStorage
from okdmr.dmrlib.storage.repeater import Repeater

PEERS = [("10.0.0.1", 50000), ("10.0.0.2", 50777), ("10.0.0.1", 1024)]  # (source ports: the handler's own P2P port and two others; the third peer shares the host of the first - two repeaters behind one NAT)
OUT = [("10.0.0.1", 30001), ("10.0.0.2", 30001), ("10.0.0.3", 30001)]
STATUS = ("absent", "unregistered", "registered")


@stub("Repeater.read_snmp_values", "okdmr.dmrlib.storage.repeater:Repeater.read_snmp_values", provided_by="external.read_snmp_values")
def snmp_stub(self, *a, **k):
    return {}


@contract("external.read_snmp_values", "okdmr.dmrlib.storage.repeater:Repeater.read_snmp_values", ["C18"],
          note="network I/O (SNMP walk): replaced by a stub that returns no values - an assumed contract (the property's own hook note)")
def snmp_assumed(vc):
    vc.prove("assumed_external_contract", True)


class Transport:
    def __init__(self):
        self.sent = []

    def sendto(self, data, addr=None):
        self.sent.append((data, addr))

    def is_closing(self):
        return False

    def get_extra_info(self, *a):
        return None


def make_storage(status):
    st = RepeaterStorage()
    recs = {}
    for i, s in enumerate(status):
        if s == "absent":
            continue
        r = st.match_incoming(PEERS[i], auto_create=True, patch={"address_out": OUT[i]})
        if s == "registered":
            r.attr(P2P.STORAGE_ATTR_IS_REGISTERED, True)
        recs[i] = r
    return st, recs


# datagram classes of the P2P handshake, transcribed (not read from the handler's constants): commands start with "P2P" and
# carry the packet type at offset 20; a ping / an ack carries 0a|0c 00 00 00 14 at offset 4
CMD, PING, ACK = b"P2P", bytes.fromhex("0a00000014"), bytes.fromhex("0c00000014")


def p2p_datagram(vc, kind, tag=""):
    fill = lambda n, name: vc.bytes_(n, tag + name)
    if kind in ("registration", "dmr", "rdac", "unknown_command"):
        t = {"registration": 0x10, "dmr": 0x11, "rdac": 0x12, "unknown_command": 0x33}[kind]
        return CMD + fill(17, "a") + bytes([t]) + fill(8, "b")
    if kind == "ping":
        a = fill(4, "a")
        vc.assume(vc.not_(vc.eq(a[:3], CMD)))  # (a datagram with the command prefix is a command, not a ping)
        return a + PING + fill(8, "b")
    if kind == "ack":
        return CMD + fill(1, "a") + ACK + fill(3, "b")
    if kind == "short_command":
        return CMD + fill(2, "a")
    return b"\x00" + fill(3, "a")  # garbage


@contract("P2PDatagramProtocol.datagram_received", "okdmr.dmrlib.protocols.hytera.p2p_datagram_protocol:P2PDatagramProtocol.datagram_received", ["C18"],
          stubs=["Repeater.read_snmp_values"])
def p2p_one(vc, status, src, kind, prelude=None):
    if vc.mode == "native":
        Repeater.read_snmp_values = snmp_stub  # the harness replaces the network I/O at run time (property's hook note)
    status = tuple(STATUS[int(c)] for c in status)
    st, recs = make_storage(status)
    h = P2P(storage=st, p2p_port=50000, rdac_port=50002)
    tr = Transport()
    h.transport = tr
    if prelude:
        # a history of length one before the datagram under test: a datagram of ANOTHER peer, so that whatever the handler
        # keeps about earlier datagrams (in state this contract knows nothing of) is part of the pre-state
        try:
            h.datagram_received(p2p_datagram(vc, prelude, "pre_"), PEERS[(src + 1) % 3])
        except (ValueError, IndexError):
            pass
        del tr.sent[:]
        recs = {i: r for i in range(3) for r in [st.match_incoming(PEERS[i])] if r is not None}
    pre_reg = {i: bool(r.attr(P2P.STORAGE_ATTR_IS_REGISTERED)) for i, r in recs.items()}
    others = {i: (r.id, r.address_in, r.address_out, dict(r._Repeater__attrs)) for i, r in recs.items() if i != src}
    n0 = len(st)
    data = p2p_datagram(vc, kind)
    requester = PEERS[src]
    raised = None
    try:
        h.datagram_received(data, requester)
    except (ValueError, IndexError) as e:  # byte overflow / truncated datagram: not claimed by the statement either way
        raised = e
    registered = pre_reg.get(src, False)
    answers = [(d, a) for d, a in tr.sent]
    rejects = [(d, a) for d, a in answers if len(d) == 1]
    accepts = [(d, a) for d, a in answers if len(d) != 1]
    if kind in ("dmr", "rdac", "ping"):
        if not registered:
            vc.prove("unregistered_source_gets_exactly_the_single_byte_reject", len(answers) == 1 and len(rejects) == 1 and vc.eq(rejects[0][0], b"\x00") and rejects[0][1] == requester)
        else:
            vc.prove("registered_source_is_not_rejected", len(rejects) == 0)
            ok_dest = all(a == recs[src].address_out or a == requester or (a[0] == requester[0] and a[1] == h.p2p_port) for d, a in accepts)
            vc.prove("answers_go_to_the_stored_outbound_address_or_the_requester", ok_dest)
            if raised is None:
                vc.prove("registered_source_is_answered", len(accepts) == (1 if kind == "ping" else 2))
    if kind in ("unknown_command", "ack", "short_command", "garbage"):
        vc.prove("other_datagrams_are_not_answered", len(answers) == 0)
    if kind != "registration":
        vc.prove("only_registration_creates_or_registers", len(st) == n0 and all(bool(r.attr(P2P.STORAGE_ATTR_IS_REGISTERED)) == pre_reg[i] for i, r in recs.items()))
    else:
        me = st.match_incoming(requester)
        vc.prove("registration_registers_the_source", raised is not None or (me is not None and bool(me.attr(P2P.STORAGE_ATTR_IS_REGISTERED))))
    for i, (rid, ain, aout, attrs) in others.items():
        r = recs[i]
        vc.prove("other_peers_untouched", r.id == rid and r.address_in == ain and r.address_out == aout and dict(r._Repeater__attrs) == attrs)
    # authorisation: every acceptance / redirect / ping answer was triggered by a source that was registered BEFORE this datagram
    vc.prove("acceptance_only_for_sources_registered_earlier", kind == "registration" or not accepts or registered)


def _p2p_shapes(tier):
    sts = ["000", "100", "200", "120", "210", "222", "012", "201"] if tier == "quick" else ["%d%d%d" % (a, b, c) for a in range(3) for b in range(3) for c in range(3)]
    for s in sts:
        for src in range(3):
            for kind in ("registration", "dmr", "rdac", "ping", "ack", "unknown_command", "short_command", "garbage"):
                yield dict(status=s, src=src, kind=kind)
    for s in (("000", "120", "201") if tier == "quick" else sts):
        for src in range(3):
            for pre in ("registration", "dmr", "ping"):
                for kind in ("registration", "dmr", "rdac", "ping"):
                    yield dict(status=s, src=src, kind=kind, prelude=pre)


p2p_one.shapes = _p2p_shapes

EXPECTED = {  # step -> (attribute with the response prefix that advances it, next step, number of requests sent)
    1: ("STEP0_RESPONSE", 2, 1), 2: ("STEP1_RESPONSE", 3, 0), 3: ("STEP2_RESPONSE", 4, 1), 4: ("STEP3_RESPONSE", 5, 2), 5: ("STEP4_RESPONSE_1", 6, 0),
    6: ("STEP4_RESPONSE_2", 7, 2), 7: ("STEP6_RESPONSE", 8, 1), 8: ("STEP7_RESPONSE_1", 10, 0), 10: ("STEP7_RESPONSE_2", 11, 1), 11: ("STEP10_RESPONSE_1", 12, 0),
    12: ("STEP10_RESPONSE_2", 13, 2), 13: ("STEP12_RESPONSE", 14, 0),
}


# the response that advances each step, transcribed from the handshake (HRNP header 7e 04 00 + opcode: fd accept, 10 data
# acknowledgement, 00 data, fa close acknowledgement) - NOT read from the handler's own constants
SPEC_PREFIX = {1: "7e0400fd", 2: "7e040010", 3: "7e040000", 4: "7e040000", 5: "7e040010", 6: "7e040000", 7: "7e040010", 8: "7e040010", 10: "7e040000", 11: "7e040010",
               12: "7e040000", 13: "7e0400fa"}


@contract("RDACDatagramProtocol.datagram_received", "okdmr.dmrlib.protocols.hytera.rdac_datagram_protocol:RDACDatagramProtocol.datagram_received", ["C18"],
          stubs=["Repeater.read_snmp_values"])
def rdac_one(vc, step, kind, other_step):
    if vc.mode == "native":
        Repeater.read_snmp_values = snmp_stub
    st = RepeaterStorage()
    done = []
    h = RDAC(storage=st, callback=lambda rid: done.append(rid))
    tr = Transport()
    h.transport = tr
    me, other = PEERS[0], PEERS[1]
    st.match_incoming(other, auto_create=True)
    if step is not None:
        h.step[me[0]] = step
        st.match_incoming(me, auto_create=True)
    h.step[other[0]] = other_step
    if kind == "reset":
        data = vc.bytes_(1, "r")
    elif kind == "expected":
        if step not in EXPECTED:
            return
        prefix = bytes.fromhex(SPEC_PREFIX[step])
        body = bytes(220 - len(prefix)) if step == 6 else vc.bytes_(40, "body")  # step 6 decodes UTF-16 text: literal filler
        data = prefix + body
    elif kind == "unexpected":
        data = b"\x7e\x04\x00\x55" + (bytes(36) if step == 14 else vc.bytes_(36, "body"))  # (step 14 only logs a hex dump)
    elif kind == "near_miss":
        # the common HRNP header with ANY other opcode octet than the one this step waits for
        if step not in SPEC_PREFIX:
            return
        x = vc.uint(8, "opcode")
        vc.assume(vc.not_(vc.eq(x, int(SPEC_PREFIX[step][6:8], 16))))
        data = b"\x7e\x04\x00" + (x.to_bytes(1, "big") if vc.mode != "native" else bytes([x])) + bytes(36)
    else:
        data = bytes(2) if step == 14 else vc.bytes_(2, "g")
    pre = h.step.get(me[0]) or 0
    h.datagram_received(data, me)
    post = h.step.get(me[0])
    vc.prove("another_peers_step_never_changes", h.step[other[0]] == other_step)
    if kind == "reset" and pre != 14:
        vc.prove("one_byte_reset_restarts_the_peer", post == 1 and len(tr.sent) == 1 and tr.sent[0][0] == bytes.fromhex("7e0400fe20100000000c60e1") and tr.sent[0][1] == me)
    elif kind == "reset":
        vc.prove("completed_peer_stays_completed", post == 14)
    elif kind == "expected" and pre in EXPECTED:
        vc.prove("expected_response_advances_the_step", post == EXPECTED[pre][1])
        vc.prove("expected_response_sends_the_next_requests_to_that_peer", len(tr.sent) == EXPECTED[pre][2] and all(a == me for d, a in tr.sent))
    else:
        # an unexpected response coincides with the expected prefix only for steps whose prefix it shares
        shares = pre in SPEC_PREFIX and data[:4] == bytes.fromhex(SPEC_PREFIX[pre]) if kind == "unexpected" else False
        if not shares and pre != 0:
            vc.prove("step_advances_only_on_the_expected_response", post == pre and len(tr.sent) == 0)
    vc.prove("completion_reported_exactly_on_the_13_to_14_transition", len(done) == (1 if (pre == 13 and post == 14) else 0))
    if pre == 13 and post == 14:
        vc.prove("completion_reports_the_peers_record", done[0] == st.match_incoming(me).id)


def _rdac_shapes(tier):
    for step in [None, 0] + sorted(EXPECTED) + [14]:
        for kind in ("reset", "expected", "unexpected", "near_miss", "garbage"):
            for other_step in ((3,) if tier == "quick" else (0, 3, 13, 14)):
                yield dict(step=step, kind=kind, other_step=other_step)


rdac_one.shapes = _rdac_shapes
