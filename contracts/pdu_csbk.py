"""C03 (CSBK part): CSBK.__init__ / as_bits / from_bits / calculate_crc_ccit, ServiceOptions, element enums used inside.
CRC16.calculate runs through its C05 contract chain (bit-serial tail stubbed; 80 bits = 10 full feeds: table path)."""
from pyvc.contract import contract, PathEnd
from contracts.pdu_common import DOCUMENTED, compare_fields, enum_of, same
from okdmr.dmrlib.etsi.layer2.pdu.csbk import CSBK
from okdmr.dmrlib.etsi.layer2.elements.csbk_opcodes import CsbkOpcodes
from okdmr.dmrlib.etsi.layer2.elements.feature_set_ids import FeatureSetIDs
from okdmr.dmrlib.etsi.layer3.elements.source_type import SourceType
from okdmr.dmrlib.etsi.layer3.elements.reason_code import ReasonCode
from okdmr.dmrlib.etsi.layer3.elements.additional_information_field import AdditionalInformationField
from okdmr.dmrlib.etsi.layer3.elements.service_options import ServiceOptions
from okdmr.dmrlib.etsi.layer3.elements.answer_response import AnswerResponse
from okdmr.dmrlib.etsi.layer3.elements.announcement_type import AnnouncementType
from okdmr.dmrlib.etsi.layer3.elements.dynamic_identifier import DynamicIdentifier
from okdmr.dmrlib.etsi.layer3.elements.channel_timing_opcode import ChannelTimingOpcode
from okdmr.dmrlib.etsi.layer3.elements.random_access_service_function import RandomAccessServiceFunction

KINDS = ("BSOutboundActivation", "UnitToUnitVoiceServiceRequest", "UnitToUnitVoiceServiceAnswerResponse", "NegativeAcknowledgementResponse",
         "PreambleCSBK", "ChannelTimingCSBK", "HyteraIPSCSync", "AlohaPDUsForRandomAccessProtocol", "AnnouncementPDUsWithoutResponse")


def service_options(vc, tag="so"):
    return ServiceOptions(is_emergency=vc.bit(tag + "_em"), is_broadcast=vc.bit(tag + "_bc"), is_open_voice_call_mode=vc.bit(tag + "_ov"),
                          priority_level=vc.uint(2, tag + "_pl"), is_privacy=vc.bit(tag + "_pr"), reserved=vc.bits(2, tag + "_rs"))


def build_csbk(vc, kind, fid=0, svc=None, at=None, ar=None):
    """a CSBK of the given kind from in-range field values (widths as the standard's PDU tables / the class docstring)"""
    common = dict(last_block=vc.bit("lb"), protect_flag=vc.bit("pf"), manufacturers_feature_set_id=FeatureSetIDs(fid))
    op = CsbkOpcodes[kind]
    if kind == "BSOutboundActivation":
        return CSBK(csbko=op, bs_address=vc.uint(24, "bs"), source_address=vc.uint(24, "sa"), **common)
    if kind == "UnitToUnitVoiceServiceRequest":
        return CSBK(csbko=op, service_options=service_options(vc), target_address=vc.uint(24, "ta"), source_address=vc.uint(24, "sa"), **common)
    if kind == "UnitToUnitVoiceServiceAnswerResponse":
        return CSBK(csbko=op, service_options=service_options(vc), answer_response=enum_of(vc, AnswerResponse, 8, "ar", ar),
                    target_address=vc.uint(24, "ta"), source_address=vc.uint(24, "sa"), **common)
    if kind == "NegativeAcknowledgementResponse":
        return CSBK(csbko=op, additional_information_field=AdditionalInformationField(vc.bit("ai")), source_type=SourceType(vc.bit("st")),
                    service_type=enum_of(vc, CsbkOpcodes, 6, "svc", svc), reason_code=enum_of(vc, ReasonCode, 8, "rc"),
                    target_address=vc.uint(24, "ta"), source_address=vc.uint(24, "sa"), **common)
    if kind == "PreambleCSBK":
        return CSBK(csbko=op, csbk_content_follows_preambles=vc.bit("cf"), target_address_is_individual=vc.bit("ti"),
                    blocks_to_follow=vc.uint(8, "btf"), target_address=vc.uint(24, "ta"), source_address=vc.uint(24, "sa"), **common)
    if kind == "ChannelTimingCSBK":
        return CSBK(csbko=op, sync_age=vc.uint(11, "age"), generation=vc.uint(5, "gen"), leader_identifier=vc.uint(20, "lid"), new_leader=vc.bit("nl"),
                    leader_dynamic_identifier=enum_of(vc, DynamicIdentifier, 2, "ldi"), channel_timing_opcode=enum_of(vc, ChannelTimingOpcode, 2, "cto"),
                    source_identifier=vc.uint(20, "sid"), source_dynamic_identifier=enum_of(vc, DynamicIdentifier, 2, "sdi"), **common)
    if kind == "HyteraIPSCSync":
        return CSBK(csbko=op, raw_data=vc.bytes_(8, "raw"), **common)
    if kind == "AlohaPDUsForRandomAccessProtocol":
        return CSBK(csbko=op, tsccas_support=vc.bit("tsccas") == 1, site_timeslot_synchronized=vc.bit("sts") == 1, document_version_control=vc.uint(3, "dvc"),
                    tscc_is_offset_timing=vc.bit("off") == 1, ts_active_connection=vc.bit("act") == 1, aloha_mask=vc.uint(5, "mask"),
                    service_function=enum_of(vc, RandomAccessServiceFunction, 2, "sf"), nrand_wait=vc.uint(4, "nr"), tscc_reg_required=vc.bit("reg") == 1,
                    tscc_backoff=vc.uint(4, "bo"), system_identity_code=vc.uint(16, "sic"), target_address=vc.uint(24, "ta"), **common)
    if kind == "AnnouncementPDUsWithoutResponse":
        return CSBK(csbko=op, announcement_type=enum_of(vc, AnnouncementType, 5, "at", at), broadcast_params=vc.bits(38, "bp"), tscc_reg_required=vc.bit("reg") == 1,
                    tscc_backoff=vc.uint(4, "bo"), system_identity_code=vc.uint(16, "sic"), **common)
    raise KeyError(kind)


@contract("CSBK.build_parse", "okdmr.dmrlib.etsi.layer2.pdu.csbk:CSBK.from_bits", ["C03", "C19"], stubs=["BitCrcRegister._process_bits"])
def csbk_build_parse(vc, kind, fid, svc=None, at=None, ar=None):
    """(a) built from in-range fields -> 96 bits -> parsed: every attribute equal, bits equal"""
    p = build_csbk(vc, kind, fid, svc, at, ar)
    b = p.as_bits()
    vc.prove("serialises_to_96_bits", len(b) == 96)
    keep = b.copy()
    q = CSBK.from_bits(b)
    compare_fields(vc, p, q)
    vc.prove("reserialises_to_equal_bits", vc.eq(q.as_bits(), keep))
    vc.prove("frame_argument_unchanged", vc.eq(b, keep))
    vc.prove("bytes_view_is_the_bits_view", vc.eq(p.as_bytes(), keep.tobytes()))
    vc.prove("from_bytes_parses_the_same", same(vc, CSBK.from_bytes(p.as_bytes()), q))


def _bp_shapes(tier):
    from contracts.pdu_common import spread

    fids = [m.value for m in FeatureSetIDs]
    for k in KINDS:
        for fid in (fids if (tier == "thorough" or k == "PreambleCSBK") else spread(fids, tier)):
            if k == "NegativeAcknowledgementResponse":
                for svc in spread([m.value for m in CsbkOpcodes], tier, 4):
                    yield dict(kind=k, fid=fid, svc=svc)
            elif k == "AnnouncementPDUsWithoutResponse":
                for at in spread([m.value for m in AnnouncementType], tier):
                    yield dict(kind=k, fid=fid, at=at)
            elif k == "UnitToUnitVoiceServiceAnswerResponse":
                for ar in spread([m.value for m in AnswerResponse], tier):
                    yield dict(kind=k, fid=fid, ar=ar)
            else:
                yield dict(kind=k, fid=fid)


csbk_build_parse.shapes = _bp_shapes
csbk_build_parse.cost = 50


@contract("CSBK.from_bits.any_96_bits", "okdmr.dmrlib.etsi.layer2.pdu.csbk:CSBK.from_bits", ["C03"], stubs=["BitCrcRegister._process_bits"])
def csbk_any_bits(vc, opcode, lbpf):
    """(b) any 96-bit string with these literal first 8 bits (LB, PF, opcode): a documented error, or a fixed point of
    decode-then-encode; the 256 shapes together cover every 96-bit string"""
    from bitarray.util import int2ba

    bits = vc.bits(96, "x")
    lit = int2ba(lbpf, length=2) + int2ba(opcode, length=6)
    for i in range(8):
        bits[i] = lit[i]
    try:
        p = CSBK.from_bits(bits)
    except DOCUMENTED:
        vc.prove("undefined_or_not_implemented_raises_a_documented_error", True)
        return
    vc.prove("decoded_object_is_a_csbk", isinstance(p, CSBK))
    s1 = p.as_bits()
    vc.prove("serialises_to_96_bits", len(s1) == 96)
    q = CSBK.from_bits(s1)
    vc.prove("serialisation_is_a_fixed_point_of_decode_then_encode", vc.eq(q.as_bits(), s1))


csbk_any_bits.shapes = lambda tier: [dict(opcode=o, lbpf=x) for o in range(64) for x in range(4)]
csbk_any_bits.cost = 20
