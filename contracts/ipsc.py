"""C13: Hytera IP Site Connect frames.  Functions under contract: HyteraIPSC.from_ipsc_bytes / from_kaitai / as_ipsc_bytes /
is_wakeup, Burst.from_hytera_ipsc, byteswap_bytes, half_byte_to_bytes, the ipsc_elements enums.
The kaitai-generated IpSiteConnectProtocol parser (third-party, reads through KaitaiStream/struct) cannot consume symbolic
bytes: it is replaced by an ASSUMED contract (class KaitaiView: every attribute = the octets at the offsets of the .ksy), which
the bounded native contract `kaitai.assumed_contract` compares with the real parser on seeded frames on every run."""
from pyvc.contract import contract, PathEnd
from contracts.burst import payload as c01_payload
from okdmr.dmrlib.hytera.hytera_ipsc import HyteraIPSC
from okdmr.dmrlib.hytera.ipsc_elements.slot_type import SlotType as IpscSlotType
from okdmr.dmrlib.hytera.ipsc_elements.timeslot import Timeslot
from okdmr.dmrlib.hytera.ipsc_elements.packet_type import PacketType
from okdmr.dmrlib.hytera.ipsc_elements.frame_type import FrameType
from okdmr.dmrlib.hytera.ipsc_elements.call_type import CallType
from okdmr.dmrlib.etsi.layer2.burst import Burst
from okdmr.dmrlib.etsi.layer2.elements.burst_types import BurstTypes
from okdmr.dmrlib.etsi.layer2.elements.sync_patterns import SyncPatterns
from okdmr.dmrlib.etsi.layer2.pdu.slot_type import SlotType
from okdmr.dmrlib.utils.bits_bytes import byteswap_bytes
from okdmr.kaitai.hytera.ip_site_connect_protocol import IpSiteConnectProtocol as K


def u_le(vc, octets):
    v = 0
    for i, o in enumerate(octets):
        v = (o << (8 * i)) + v if vc.mode == "native" else (o << (8 * i)) | v
    return v


def u_be(vc, octets):
    return u_le(vc, list(octets)[::-1])


class KaitaiView(K):
    """assumed contract of IpSiteConnectProtocol.from_bytes on a 72-octet frame (offsets of the .ksy); enum-typed attributes
    are the generated enum's member for a defined value and the plain int otherwise (KaitaiStream.resolve_enum)"""

    def __init__(self, vc, f, lit):
        # no super().__init__: nothing is read from a stream
        o = list(f) if vc.mode == "native" else list(f.v) if hasattr(f, "v") else list(f)
        self.source_port = f[0:2]
        self.fixed_header = f[2:4]
        self.sequence_number = o[4]
        self.reserved_3 = f[5:8]
        self.packet_type = _resolve(K.PacketTypes, lit["packet_type"])
        self.reserved_7a = f[9:16]
        self.timeslot_raw = _resolve(K.Timeslots, lit["timeslot"])
        self.slot_type = _resolve(K.SlotTypes, lit["slot_type"])
        self.color_code_raw = u_le(vc, o[20:22])
        self.frame_type = _resolve(K.FrameTypes, lit["frame_type"])
        self.reserved_2a = f[24:26]
        self.ipsc_payload = f[26:60]
        self.reserved_2b = f[60:62]
        self.call_type = _resolve(K.CallTypes, lit["call_type"])
        self.destination_radio_id_raw = u_le(vc, o[63:67])
        self.source_radio_id_raw = u_le(vc, o[67:71])
        self.reserved_1b = o[71]


def _resolve(enum_cls, value):
    try:
        return enum_cls(value)
    except ValueError:
        return value


def build_frame(vc, lit, inner):
    """a well-formed 72-octet frame: fixed header, literal defined packet / slot / frame / call / timeslot values (from the
    shape), symbolic sequence number, colour code, radio ids, reserved octets; payload = 33 octets + 1 pad octet, word-swapped"""
    cc = vc.uint(4, "cc")
    dst = vc.uint(24, "dst_id")
    src = vc.uint(24, "src_id")
    seq = vc.uint(8, "seq")
    pad = vc.uint(8, "padoctet")
    ccb = cc | (cc << 4)

    def le(v, n):
        if vc.mode == "native":
            return int(v).to_bytes(n, "little")
        from pyvc.values import SInt

        return SInt.lift(v).to_bytes(n, "little") if not isinstance(v, int) else v.to_bytes(n, "little")

    def one(v):
        return le(v, 1)

    frame = (vc.bytes_(2, "port") + b"\x5a\x5a" + one(seq) + vc.bytes_(3, "r3") + bytes([lit["packet_type"]]) + vc.bytes_(7, "r7")
             + lit["timeslot"].to_bytes(2, "little") + lit["slot_type"].to_bytes(2, "little") + one(ccb) + one(ccb) + lit["frame_type"].to_bytes(2, "little")
             + vc.bytes_(2, "r2a") + byteswap_bytes(inner + one(pad)) + vc.bytes_(2, "r2b") + bytes([lit["call_type"]])
             + b"\x00" + le(dst, 3) + b"\x00" + le(src, 3) + vc.bytes_(1, "r1"))
    return frame, cc, dst, src, seq


INNER = {
    # ipsc slot type -> (C01 payload kind or voice kind, frame type, packet type)
    "CSBK": ("CSBK.PreambleCSBK", 0x3333, 65),
    "DataHeader": ("DataHeader.DataPacketUnconfirmed", 0x6666, 65),
    "Rate12Data": ("Rate12.Unconfirmed", 0x0000, 65),
    "VoiceLCHeader": ("VoiceLCHeader.GroupVoiceChannelUser", 0x1111, 66),
    "TerminatorWithLC": ("TerminatorWithLC.GroupVoiceChannelUser", 0x0000, 67),
    "VoiceFrameA": ("voice_sync", 0x1111, 65),
    "VoiceFrameB": ("voice_raw", 0xBBBB, 65),
    "Wakeup": ("raw", 0x0000, 66),
    "VoiceOrDataSync": ("raw", 0xEEEE, 66),
}


def inner_burst(vc, kind):
    if kind == "raw":  # wakeup / sync frames carry no DMR burst: arbitrary octets, centre (where a SYNC would sit) zero
        return vc.bytes_(13, "inner_a") + bytes(7) + vc.bytes_(13, "inner_b")
    if kind == "voice_raw":  # voice frame B..F: vocoder bits around valid embedded signalling
        from okdmr.dmrlib.etsi.layer2.pdu.embedded_signalling import EmbeddedSignalling

        v = vc.bits(216, "v")
        e = EmbeddedSignalling(colour_code=vc.uint(4, "ecc"), preemption_and_power_control_indicator=vc.bit("pi"), link_control_start_stop=vc.uint(2, "lcss")).as_bits()
        return (v[:108] + e[:8] + vc.bits(32, "mid") + e[8:] + v[108:]).tobytes()
    if kind == "voice_sync":
        v = vc.bits(216, "v")
        return (v[:108] + SyncPatterns.BsSourcedVoice.as_bits() + v[108:]).tobytes()
    p, dt, typed = c01_payload(vc, kind)
    b = Burst(burst_type=BurstTypes.DataAndControl)
    b.has_emb = False
    b.sync_or_embedded_signalling = SyncPatterns.BsSourcedData
    b.slot_type = SlotType(colour_code=vc.uint(4, "icc"), data_type=dt)
    b.data = p
    return b.as_bytes()


@contract("HyteraIPSC.frame", "okdmr.dmrlib.hytera.hytera_ipsc:HyteraIPSC.from_ipsc_bytes", ["C13", "C19"], stubs=["BitCrcRegister._process_bits", "BPTC19696.encode", "BPTC19696.deinterleave_data_bits"])
def ipsc_frame(vc, slot, timeslot, call, err=None):
    """err: a literal bit of the 264-bit burst received inverted (the payload still parses as the indicated kind - the FEC
    corrects it -, but it is no longer the library's own canonical encoding: 'arbitrary payloads that parse as ...')"""
    kind, frame_type, packet_type = INNER[slot]
    lit = dict(packet_type=packet_type, timeslot=Timeslot[timeslot].value, slot_type=IpscSlotType[slot].value, frame_type=frame_type, call_type=CallType[call].value)
    inner = inner_burst(vc, kind)
    if err is not None:
        octets = list(inner)
        octets[err // 8] = octets[err // 8] ^ (0x80 >> (err % 8))
        from contracts.hytera import octs

        inner = octs(*octets)
    frame, cc, dst, src, seq = build_frame(vc, lit, inner)
    vc.prove("frame_is_72_octets", len(frame) == 72)
    keep = frame[:]
    a = HyteraIPSC.from_ipsc_bytes(frame)
    k = HyteraIPSC.from_kaitai(KaitaiView(vc, frame, lit))
    for name, x in (("raw_bytes_decoder", a), ("parser_object_decoder", k)):
        vc.prove(name + ".colour_code_is_the_4_bit_field", vc.eq(x.color_code, cc))
        vc.prove(name + ".destination_id_is_the_24_bit_field", vc.eq(x.destination_radio_id, dst))
        vc.prove(name + ".source_id_is_the_24_bit_field", vc.eq(x.source_radio_id, src))
        vc.prove(name + ".sequence_number", vc.eq(x.sequence_number, seq))
        vc.prove(name + ".timeslot_and_types", x.timeslot is Timeslot[timeslot] and x.slot_type is IpscSlotType[slot] and x.call_type is CallType[call]
                 and x.frame_type is FrameType(frame_type) and x.packet_type is PacketType(packet_type))
        vc.prove(name + ".payload_is_the_33_inner_octets", vc.eq(x.payload, inner))
        vc.prove(name + ".reserialises_to_the_original_72_octets", vc.eq(x.as_ipsc_bytes(), keep))
    b1 = Burst.from_hytera_ipsc(frame)
    b2 = Burst.from_hytera_ipsc(KaitaiView(vc, frame, lit))
    vc.prove("both_decoders.same_burst_class", type(b1) is type(b2))
    vc.prove("both_decoders.same_payload_bits", vc.eq(b1.as_bits(), b2.as_bits()) and vc.eq(b1.full_bits, b2.full_bits))
    vc.prove("both_decoders.same_timeslot", b1.timeslot == b2.timeslot == (1 if timeslot == "Timeslot_1" else 2))
    vc.prove("both_decoders.same_sequence_number", vc.and_(vc.eq(b1.sequence_no, seq), vc.eq(b2.sequence_no, seq)))
    vc.prove("both_decoders.same_radio_ids", vc.and_(vc.eq(b1.source_radio_id, src), vc.eq(b2.source_radio_id, src), vc.eq(b1._target_radio_id, dst), vc.eq(b2._target_radio_id, dst)))
    # the public destination id of the burst (a property that falls back to the payload's own address when the frame says 0)
    vc.prove("both_decoders.public_target_id_is_the_frame_destination", vc.implies(vc.not_(vc.eq(dst, 0)), vc.and_(vc.eq(b1.target_radio_id, dst), vc.eq(b2.target_radio_id, dst))))
    vc.prove("both_decoders.same_colour_code", vc.and_(vc.eq(b1.hytera_ipsc.color_code, cc), vc.eq(b2.hytera_ipsc.color_code, cc)))
    # the decoded frame that travels with the burst serialises to the original octets as well
    vc.prove("both_decoders.frame_attached_to_the_burst_reserialises_to_the_original_72_octets", vc.and_(vc.eq(b1.hytera_ipsc.as_ipsc_bytes(), keep), vc.eq(b2.hytera_ipsc.as_ipsc_bytes(), keep)))
    vc.prove("frame_argument_unchanged", vc.eq(frame, keep))


def _ipsc_shapes(tier):
    for i, slot in enumerate(INNER):
        for j, ts in enumerate(("Timeslot_1", "Timeslot_2")):
            # the wake-up call types announce a wake-up frame (no DMR burst inside): they go with the wake-up slot type only
            calls = ("PrivateCall", "GroupCall", "WakeupCall_2", "WakeupCall_c") if slot == "Wakeup" else ("PrivateCall", "GroupCall")
            for c, call in enumerate(calls):
                if tier == "thorough" or (i + j + c) % 2 == 0:
                    yield dict(slot=slot, timeslot=ts, call=call)
    for e in ((5, 200) if tier == "quick" else (0, 5, 50, 97, 166, 200, 263)):
        yield dict(slot="Rate12Data", timeslot="Timeslot_1", call="GroupCall", err=e)


ipsc_frame.shapes = _ipsc_shapes
ipsc_frame.cost = 20


@contract("kaitai.assumed_contract", "okdmr.kaitai.hytera.ip_site_connect_protocol:IpSiteConnectProtocol.from_bytes", ["C13"], bounded=True,
          note="validation of the ASSUMED contract of the third-party generated parser: KaitaiView (offsets of the .ksy) vs the real parser on seeded well-formed frames")
def kaitai_assumed(vc, slot, call):
    if vc.mode != "native":
        return
    kind, frame_type, packet_type = INNER[slot]
    ts = ("Timeslot_1", "Timeslot_2")[vc.bit("ts")]
    lit = dict(packet_type=packet_type, timeslot=Timeslot[ts].value, slot_type=IpscSlotType[slot].value, frame_type=frame_type, call_type=CallType[call].value)
    frame, cc, dst, src, seq = build_frame(vc, lit, vc.bytes_(33, "inner"))
    real = K.from_bytes(frame)
    view = KaitaiView(vc, frame, lit)
    names = ("source_port", "fixed_header", "sequence_number", "reserved_3", "packet_type", "reserved_7a", "timeslot_raw", "slot_type", "color_code_raw", "frame_type",
             "reserved_2a", "ipsc_payload", "reserved_2b", "call_type", "destination_radio_id_raw", "source_radio_id_raw", "reserved_1b", "color_code", "destination_radio_id", "source_radio_id")
    bad = [n for n in names if getattr(real, n) != getattr(view, n)]
    vc.prove("assumed_contract_agrees_with_the_real_parser", not bad, note=bad)


kaitai_assumed.shapes = lambda tier: [dict(slot=s, call=c) for s in INNER for c in (("PrivateCall", "GroupCall", "WakeupCall_2", "WakeupCall_c") if s == "Wakeup" else ("PrivateCall", "GroupCall"))]
kaitai_assumed.native_random = 400
