"""C15: LRRP documents in MBXML buffers.

Functions under contract: MBXML.from_bytes / read_document / as_bytes / write_part / read_opaque / read_opaque_defined_size /
read_uint8 (+ read_uintvar / write_uintvar on literal-length encodings), MBXMLDocument.get_token / get_attribute, LRRP
get_configuration / get_known_tokens / get_known_attributes.

A buffer is composed by an INDEPENDENT serialiser written here from the format description (canonical form: shortest uintvars,
literal continuation bits) for a literal sequence of element tokens with SYMBOLIC values; the library parses it, and the
documents must carry exactly these token ids and values and serialise back to the identical octets.
Float-valued tokens (ufloatvar / sfloatvar, circle-2d radius, point-3d altitude) are float arithmetic, outside the engine:
bounded native enumeration (labelled bounded) over one-septet fractions."""
from pyvc.contract import contract, PathEnd
from contracts.hytera import octs
from okdmr.dmrlib.motorola.mbxml import MBXML, MBXMLDocument, MBXMLDocumentIdentifier as DI, MBXMLToken, GlobalToken
from okdmr.dmrlib.motorola.lrrp import LRRP

# element tokens per side: id -> (kind, ...)   kinds: opaque | fixed n | uintvar | uint8 | none | info_time | point2d |
# result_attr (0x37) | result_implied (0x38) | result_attr_opaque (0x39) | ufloat | sfloat | circle2d | point3d
COMMON = {0x22: ("opaque",), 0x23: ("fixed", 1)}
REQUEST = dict(COMMON)
REQUEST.update({0x31: ("uintvar",), 0x33: ("none",), 0x34: ("none",), 0x54: ("none",), 0x55: ("uintvar",), 0x57: ("none",), 0x5F: ("uintvar",), 0x61: ("uint8",), 0x3F: ("uintvar",),
                0x62: ("none",), 0x64: ("none",), 0x42: ("uintvar",), 0x66: ("none",), 0x67: ("uintvar",), 0x69: ("none",), 0x71: ("uintvar",), 0x73: ("uint8",), 0x74: ("none",),
                0x76: ("none",), 0x50: ("none",), 0x51: ("none",), 0x52: ("none",), 0x53: ("none",), 0x4A: ("uintvar",),
                0x56: ("ufloat",), 0x60: ("ufloat",), 0x68: ("ufloat",), 0x72: ("ufloat",)})
REPORT = dict(COMMON)
REPORT.update({0x56: ("uint8",), 0x34: ("info_time",), 0x35: ("info_time",), 0x65: ("uint8",), 0x66: ("point2d",), 0x36: ("uintvar",), 0x37: ("result_attr",), 0x38: ("result_implied",),
               0x39: ("result_attr_opaque",), 0x6B: ("uint8",), 0x51: ("circle2d",), 0x69: ("point3d",), 0x6C: ("ufloat",), 0x70: ("sfloat",)})
FLOATY = ("ufloat", "sfloat", "circle2d", "point3d")
REQUEST_DOCS = ["LRRP_ImmediateLocationRequest", "LRRP_ImmediateLocationRequest_NCDT", "LRRP_TriggeredLocationRequest", "LRRP_TriggeredLocationRequest_NCDT",
                "LRRP_TriggeredLocationStopRequest", "LRRP_TriggeredLocationStopRequest_NCDT", "LRRP_LocationProtocolRequest_NCDT"]
REPORT_DOCS = ["LRRP_TriggeredLocationReport", "LRRP_TriggeredLocationReport_NCDT", "LRRP_ImmediateLocationReport", "LRRP_ImmediateLocationReport_NCDT", "LRRP_UnsolicitedLocationReport",
               "LRRP_UnsolicitedLocationReport_NCDT", "LRRP_LocationProtocolReport_NCDT", "LRRP_TriggeredLocationStopAnswer", "LRRP_TriggeredLocationStopAnswer_NCDT"]
ANSWER_DOCS = ["LRRP_TriggeredLocationAnswer", "LRRP_TriggeredLocationAnswer_NCDT"]  # common tokens only


def table_of(doc):
    return REQUEST if doc in REQUEST_DOCS else (REPORT if doc in REPORT_DOCS else COMMON)


# ---------------------------------------------------------------------------------------------- the independent serialiser
def lit_uintvar(v):
    """canonical (shortest) big-endian base-128 encoding of a literal"""
    out = [v & 0x7F]
    v >>= 7
    while v:
        out.append(0x80 | (v & 0x7F))
        v >>= 7
    return bytes(reversed(out))


def sym_uintvar(vc, name, k):
    """a symbolic value whose canonical encoding has exactly k septets: (octets, value)"""
    septs = [vc.uint(7, "%s_%d" % (name, i)) for i in range(k)]  # most significant first
    if k > 1:
        vc.assume(vc.not_(vc.eq(septs[0], 0)))  # shortest form: no leading zero septet
    if k == 5:
        vc.assume(septs[0] <= 0x0F)  # 32 bits
    o = b""
    v = 0
    for i, s in enumerate(septs):
        o = o + octs(s + 0x80 if i < k - 1 else s)
        v = v * 128 + s
    return o, v


def token_octets(vc, tid, kind, arg, name):
    """(octets after the token id octet, expected value, expected attribute values)"""
    k = kind[0]
    if k == "opaque":
        d = vc.bytes_(arg, name)
        return lit_uintvar(arg) + d, d, []
    if k == "fixed":
        d = vc.bytes_(kind[1], name)
        return d, d, []
    if k == "uintvar":
        o, v = sym_uintvar(vc, name, arg)
        return o, v, []
    if k == "uint8":
        v = vc.uint(8, name)
        return octs(v), v, []
    if k == "none":
        return b"", None, []
    if k == "info_time":
        d = vc.bytes_(5, name)
        return d, d, []
    if k == "point2d":
        la, lo = vc.bytes_(4, name + "_lat"), vc.bytes_(4, name + "_lon")
        return la + lo, (la, lo), []
    if k == "result_attr":
        o, v = sym_uintvar(vc, name, arg)
        return o, b"", [v]
    if k == "result_implied":
        return b"", b"", []
    if k == "result_attr_opaque":
        o, v = sym_uintvar(vc, name, arg[0])
        d = vc.bytes_(arg[1], name + "_d")
        return o + lit_uintvar(arg[1]) + d, d, [v]
    raise KeyError(kind)


def value_equal(vc, got, want):
    if want is None or got is None:
        return got is None and want is None
    if isinstance(want, tuple):
        return isinstance(got, tuple) and len(got) == len(want) and vc.and_(*[value_equal(vc, g, w) for g, w in zip(got, want)])
    return vc.eq(got, want)


# the standard LRRP constant data table, transcribed (each string preceded by its length): a document may carry it inline - it then
# is an inline table like any other and has to come back when the document is serialised again
STANDARD_STRINGS = (b"HIGH", b"NORMAL", b"APCO", b"IPV4", b"IPV6", b"PLMN", b"TETRA", b"USER-SPECIFIED", b"http://", b"http://www.", b"YES", b"NO", b"LTD")
STANDARD_TABLE = b"".join(bytes([len(x)]) + x for x in STANDARD_STRINGS)


def compose(vc, docs):
    """docs: [dict(doc=name, cdt=None|n|'inherit', tokens=[[tid, arg], ...])] -> (octets, expectation per document)"""
    raw = b""
    expect = []
    for di, d in enumerate(docs):
        did = DI[d["doc"]]
        tab = table_of(d["doc"])
        body = b""
        cdt = None
        if not did.value[1]:  # a constant data table field: inline (length n) or inherited from the previous document (1)
            if d.get("cdt") == "inherit":
                body += b"\x01"
                cdt = "inherit"
            elif d.get("cdt") == "standard":
                cdt = STANDARD_TABLE
                body += lit_uintvar(len(cdt)) + cdt
            else:
                n = d.get("cdt") or 0
                cdt = vc.bytes_(n, "cdt%d" % di)
                body += lit_uintvar(n) + cdt
        parts = []
        for ti, (tid, arg) in enumerate(d["tokens"]):
            o, v, attrs = token_octets(vc, tid, tab[tid], arg, "d%dt%d" % (di, ti))
            body += bytes([tid]) + o
            parts.append((tid, v, attrs))
        raw += lit_uintvar(did.value[0]) + lit_uintvar(len(body)) + body
        expect.append(dict(id=did, cdt=cdt, parts=parts))
    return raw, expect


def document_clauses(vc, raw, expect, docs):
    vc.prove("one_document_per_announced_length", len(docs) == len(expect))
    out = b""
    prev_cdt = None
    for got, want in zip(docs, expect):
        vc.prove("document_id", got.id is want["id"])
        vc.prove("token_ids_in_order", [p.token_id for p in got.parts] == [t for t, _, _ in want["parts"]])
        for p, (tid, v, attrs) in zip(got.parts, want["parts"]):
            vc.prove("token_value", value_equal(vc, p.value, v))
            have = [a.value for a in p.attributes if isinstance(a, MBXMLToken)]
            vc.prove("serialised_attribute_values", len(have) == len(attrs) and vc.and_(*[vc.eq(x, y) for x, y in zip(have, attrs)]))
        if want["cdt"] is not None:
            table = prev_cdt if want["cdt"] == "inherit" else want["cdt"]
            vc.prove("constant_table_inline_or_inherited", vc.eq(got.constants_table, table))
            prev_cdt = table
        out = out + MBXML.as_bytes(got)
    vc.prove("reserialises_to_the_identical_octets", len(out) == len(raw) and vc.eq(out, raw))


@contract("MBXML.from_bytes", "okdmr.dmrlib.motorola.mbxml:MBXML.from_bytes", ["C15", "C19"], stubs=["MBXML.write_uintvar"])
def parse_serialise(vc, docs):
    raw, expect = compose(vc, docs)
    got = MBXML.from_bytes(raw)
    document_clauses(vc, raw, expect, got)


def _arg_choices(kind, r, big):
    k = kind[0]
    if k == "opaque":
        return r.choice([0, 1, 4, 4, 9] + ([128, 200] if big else []))
    if k in ("uintvar", "result_attr"):
        return r.choice([1, 1, 2, 3, 4, 5])
    if k == "result_attr_opaque":
        return [r.choice([1, 1, 2, 5]), r.choice([0, 3, 3] + ([130] if big else []))]
    return None


def _sequences(tier, floaty):
    import random

    r = random.Random(15 if not floaty else 51)
    out = []

    def seq(doc, n):
        tab = table_of(doc)
        ids = [t for t, k in tab.items() if k[0] not in FLOATY]
        return [[t, _arg_choices(tab[t], r, tier != "quick")] for t in (r.choice(ids) for _ in range(n))]

    alld = REQUEST_DOCS + REPORT_DOCS + ANSWER_DOCS
    # every document id once with a short sequence; every token once; then seeded sequences of 0..12 tokens in 1..3 documents
    for d in alld:
        out.append([dict(doc=d, cdt=r.choice([0, 3]), tokens=seq(d, 3))])
    for side, d in ((REQUEST, "LRRP_ImmediateLocationRequest_NCDT"), (REPORT, "LRRP_ImmediateLocationReport_NCDT")):
        for t, k in side.items():
            if (k[0] in FLOATY) != floaty:
                continue
            for rep in range(3 if k[0] in ("opaque", "uintvar", "result_attr", "result_attr_opaque") else 1):
                out.append([dict(doc=d, tokens=[[0x22, 4], [t, _arg_choices(k, r, True)]])])
    # several documents in one buffer, the later ones inheriting the constant table of the one before
    for a, b in (("LRRP_ImmediateLocationRequest", "LRRP_TriggeredLocationRequest"), ("LRRP_ImmediateLocationReport", "LRRP_ImmediateLocationReport"),
                 ("LRRP_TriggeredLocationAnswer", "LRRP_UnsolicitedLocationReport")):
        out.append([dict(doc=a, cdt=4, tokens=seq(a, 2)), dict(doc=b, cdt="inherit", tokens=seq(b, 3))])
        out.append([dict(doc=a, cdt=0, tokens=seq(a, 1)), dict(doc=b, cdt="inherit", tokens=seq(b, 0)), dict(doc=a, cdt="inherit", tokens=seq(a, 2))])
        out.append([dict(doc=a, cdt=2, tokens=[]), dict(doc=a + "_NCDT", tokens=seq(a, 2)), dict(doc=b, cdt=3, tokens=seq(b, 2))])
    # an inline table that happens to be the standard one
    for a, b in (("LRRP_ImmediateLocationRequest", "LRRP_TriggeredLocationRequest"), ("LRRP_ImmediateLocationReport", "LRRP_UnsolicitedLocationReport")):
        out.append([dict(doc=a, cdt="standard", tokens=seq(a, 2))])
        out.append([dict(doc=a, cdt="standard", tokens=seq(a, 1)), dict(doc=b, cdt="inherit", tokens=seq(b, 2))])
    # two documents of DIFFERENT kinds in one buffer, in both orders: every document id meets a request, a report and an
    # answer document (whatever the library remembers per document kind must not carry over to the next document)
    reps = ["LRRP_ImmediateLocationRequest_NCDT", "LRRP_LocationProtocolRequest_NCDT", "LRRP_ImmediateLocationReport_NCDT", "LRRP_LocationProtocolReport_NCDT", "LRRP_TriggeredLocationAnswer_NCDT"]
    for a in alld:
        for b in reps:
            if a != b:
                out.append([dict(doc=a, cdt=0, tokens=seq(a, 2)), dict(doc=b, cdt=0, tokens=seq(b, 3))])
                if tier != "quick" or (len(out) % 3 == 0):
                    out.append([dict(doc=b, cdt=1, tokens=seq(b, 3)), dict(doc=a, cdt=0, tokens=seq(a, 2))])
    for i in range(40 if tier == "quick" else 1500):
        nd = r.choice([1, 1, 2, 3])
        ds = []
        for j in range(nd):
            d = r.choice(alld)
            cdt = r.choice([0, 2, 5])
            if j and not DI[d].value[1] and ds and not DI[ds[-1]["doc"]].value[1] and r.random() < 0.5:
                cdt = "inherit"
            ds.append(dict(doc=d, cdt=cdt, tokens=seq(d, r.choice([0, 1, 2, 4, 7, 12]))))
        out.append(ds)
    return [dict(docs=x) for x in out]


parse_serialise.shapes = lambda tier: _sequences(tier, False)
parse_serialise.cost = 3
parse_serialise.budget_s = 90
parse_serialise.max_paths = 3000


# ---------------------------------------------------------------------------------------------- assembled documents
@contract("MBXMLDocument.get_token", "okdmr.dmrlib.motorola.mbxml:MBXMLDocument.get_token", ["C15", "C19"], stubs=["MBXML.write_uintvar"])
def assembled(vc, doc, tokens, cdt=None):
    """a document assembled through the token lookup API (element by id, attributes by id or name, symbolic values)
    serialises to octets that parse back into the same token ids and values"""
    did = DI[doc]
    tab = table_of(doc)
    is_request = doc in REQUEST_DOCS
    d = LRRP(document_id=did)
    if not did.value[1]:  # a document with a constant data table carries it
        d.is_constant_table_default = False
        d.constants_table = STANDARD_TABLE if cdt == "standard" else vc.bytes_(cdt or 0, "cdt")
    want = []
    for ti, (tid, arg) in enumerate(tokens):
        k = tab[tid][0]
        name = "t%d" % ti
        attrs, attr_vals = {}, []
        if k == "opaque":
            v = vc.bytes_(arg, name)
        elif k == "fixed":
            v = vc.bytes_(tab[tid][1], name)
        elif k in ("uintvar",):
            v = sym_uintvar(vc, name, arg)[1]
        elif k == "uint8":
            v = vc.uint(8, name)
        elif k == "none":
            v = None
        elif k == "info_time":
            v = vc.bytes_(5, name)
        elif k == "point2d":
            v = (vc.bytes_(4, name + "_lat"), vc.bytes_(4, name + "_lon"))
        elif k == "result_attr":
            v = b""
            code = sym_uintvar(vc, name, arg)[1]
            attrs, attr_vals = {0x22: code}, [code]
        elif k == "result_implied":
            v = b""
            attrs = {0x23: 0}
        elif k == "result_attr_opaque":
            v = vc.bytes_(arg[1], name + "_d")
            code = sym_uintvar(vc, name, arg[0])[1]
            attrs, attr_vals = {"result-code": code}, [code]
        else:
            raise KeyError(k)
        t = d.get_token(name=tid, value=v, attributes=attrs, is_request=is_request)
        vc.prove("lookup_returns_the_token_asked_for", t.token_id == tid)
        d.parts.append(t)
        want.append((tid, v, attr_vals))
    raw = MBXML.as_bytes(d)
    got = MBXML.from_bytes(raw)
    vc.prove("parses_back_to_one_document", len(got) == 1 and got[0].id is did)
    vc.prove("token_ids_in_order", [p.token_id for p in got[0].parts] == [t for t, _, _ in want])
    for p, (tid, v, attr_vals) in zip(got[0].parts, want):
        vc.prove("token_value", value_equal(vc, p.value, v))
        have = [a.value for a in p.attributes if isinstance(a, MBXMLToken)]
        vc.prove("serialised_attribute_values", len(have) == len(attr_vals) and vc.and_(*[vc.eq(x, y) for x, y in zip(have, attr_vals)]))
    vc.prove("reserialises_to_the_identical_octets", vc.eq(MBXML.as_bytes(got[0]), raw))


def _assembled_shapes(tier):
    out = []
    for s in _sequences(tier, False):
        if len(s["docs"]) == 1:
            d = s["docs"][0]
            toks = []
            for t, a in d["tokens"]:
                k = table_of(d["doc"])[t][0]
                toks.append([t, a])
            out.append(dict(doc=d["doc"], tokens=toks, cdt=d.get("cdt") if d.get("cdt") != "inherit" else 0))
    return out


assembled.shapes = _assembled_shapes
assembled.cost = 3
assembled.budget_s = 90
assembled.max_paths = 3000

# ---------------------------------------------------------------------------------------------- float tokens (bounded)
UFLOATS = [0.0, 0.5, 1.0, 12.5, 127.0, 127.9921875, 128.0, 300.25, 16383.0078125, 16384.0, 2097152.5, 4294967295.0]
SFLOATS = [0.0, 0.5, -0.5, 1.0, -1.0, 63.0, -63.9921875, 64.0, -64.0, 100.25, -8191.5, 8192.0, -1048576.0078125, 2147483647.0, -2147483647.0]


@contract("MBXML.float_tokens", "okdmr.dmrlib.motorola.mbxml:MBXML.read_document", ["C15"], bounded=True,
          note="ufloatvar / sfloatvar values are float arithmetic outside the engine: literal values with one-septet fractions, built through the lookup API, serialised, parsed, serialised again")
def float_tokens(vc, doc, tid, value):
    did = DI[doc]
    tab = table_of(doc)
    k = tab[tid][0]
    d = LRRP(document_id=did)
    rid = vc.bytes_(4, "rid")
    d.parts.append(d.get_token(name=0x22, value=rid, attributes={}, is_request=doc in REQUEST_DOCS))
    if k == "circle2d":
        v = (vc.bytes_(4, "lat"), vc.bytes_(4, "lon"), value)
    elif k == "point3d":
        v = (vc.bytes_(4, "lat"), vc.bytes_(4, "lon"), value)
    else:
        v = value
    d.parts.append(d.get_token(name=tid, value=v, attributes={}, is_request=doc in REQUEST_DOCS))
    raw = MBXML.as_bytes(d)
    got = MBXML.from_bytes(raw)
    vc.prove("parses_back_to_one_document", len(got) == 1 and [p.token_id for p in got[0].parts] == [0x22, tid])
    vc.prove("token_value", got[0].parts[1].value == v)
    again = MBXML.as_bytes(got[0])
    vc.prove("reserialises_to_the_identical_octets", again == raw)
    two = MBXML.from_bytes(raw + raw)
    vc.prove("two_documents_in_one_buffer", len(two) == 2 and b"".join(MBXML.as_bytes(x) for x in two) == raw + raw)


def _float_shapes(tier):
    out = []
    for doc, tab in (("LRRP_ImmediateLocationRequest_NCDT", REQUEST), ("LRRP_ImmediateLocationReport_NCDT", REPORT)):
        for t, k in tab.items():
            if k[0] in FLOATY:
                for v in (SFLOATS if k[0] in ("sfloat", "point3d") else UFLOATS):
                    out.append(dict(doc=doc, tid=t, value=v))
    return out


float_tokens.shapes = _float_shapes
float_tokens.native_all = True
