"""C17: HSTRP / RRS datagram handler, by induction over datagrams: ONE datagram from ANY handler state satisfying the
invariant.  Functions under contract: HSTRPDatagramProtocol.datagram_received / hstrp_send_ack / hstrp_send_heartbeat /
hstrp_set_connected / hstrp_increment_sn, RRSDatagramProtocol.datagram_received / rrs_confirm.
HSTRP.from_bytes is replaced by its over-approximating contract: it raises, returns None, or returns an HSTRP object whose six
type flags are arbitrary (symbolic), whose sequence number is any 16-bit value and whose payload is nothing, an opaque HDAP
message, or a radio registration service message - which covers well-formed, truncated and garbage datagrams alike."""
from pyvc.contract import contract, stub, current_vc, PathEnd
from okdmr.dmrlib.protocols.hytera.hstrp_datagram_protocol import HSTRPDatagramProtocol
from okdmr.dmrlib.protocols.hytera.rrs_datagram_protocol import RRSDatagramProtocol
from okdmr.dmrlib.hytera.pdu.hstrp import HSTRP, HSTRPPacketType, HSTRPOptions
from okdmr.dmrlib.hytera.pdu.hdap import HDAP
from okdmr.dmrlib.hytera.pdu.radio_ip import RadioIP
from okdmr.dmrlib.hytera.pdu.radio_registration_service import RadioRegistrationService, RRSTypes, RRSRadioState, RRSResult

RADIOS = {"A": 2308155, "B": 101}
GHOST = {}


class Opaque(HDAP):
    """some HDAP application message the HSTRP layer does not look into"""

    def __init__(self):
        super().__init__(is_reliable=False)

    def get_payload(self):
        return b"\x01\x02"

    def get_opcode(self):
        return b"\x00\x01"

    def get_service_type(self):
        from okdmr.dmrlib.hytera.pdu.hdap import HyteraServiceType

        return HyteraServiceType.RCP


class Transport:
    def __init__(self):
        self.sent = []

    def sendto(self, data, addr):
        self.sent.append((data, addr))

    def is_closing(self):
        return False

    def __repr__(self):
        return "<recording transport>"


@stub("HSTRP.from_bytes", "okdmr.dmrlib.hytera.pdu.hstrp:HSTRP.from_bytes", provided_by="HSTRP.from_bytes.over_approximation")
def from_bytes_overapprox(data=None, endian="big"):
    g = GHOST
    if g["kind"] == "raises":
        raise g["exc"]("stub: datagram does not decode")
    if g["kind"] == "none":
        return None
    return g["pdu"]


@contract("HSTRP.from_bytes.over_approximation", "okdmr.dmrlib.hytera.pdu.hstrp:HSTRP.from_bytes", ["C17", "C12"],
          note="what the handler contract assumes of the parser: None, an exception, or an HSTRP with boolean flags, a 16-bit sn and a payload that is None or an HDAP")
def from_bytes_shape(vc, n):
    d = vc.bytes_(n, "d")
    if n >= 2:
        vc.assume(vc.eq(d[0:2], b"2B")) if n >= 6 and vc.mode == "symbolic" and False else None
    try:
        p = HSTRP.from_bytes(d)
    except Exception:
        vc.prove("raises_or_returns", True)
        return
    if p is None:
        vc.prove("short_datagrams_give_none", n < 6)
        return
    vc.prove("returns_an_hstrp", isinstance(p, HSTRP) and isinstance(p.pkt_type, HSTRPPacketType))
    vc.prove("sequence_number_fits_16_bits", vc.and_(p.sn >= 0, p.sn <= 0xFFFF))
    vc.prove("payload_is_none_or_hdap", p.payload is None or isinstance(p.payload, HDAP))


from_bytes_shape.shapes = lambda tier: [dict(n=n) for n in (0, 1, 5, 6, 7, 8)]  # (9 octets and more: the 16-bit RCP opcode enumeration makes each path cost seconds; assumed, see props.py)


# exception classes the real parser raises on malformed datagrams, each with a datagram that triggers it natively
RAISING = {
    "AssertionError": (AssertionError, b"XB\x00\x00\x00\x01\x02"),  # wrong prefix
    "KeyError": (KeyError, b"2B\x00\x01\x00\x01\x13\x00\x03\x00\x04"),  # service type without a parser
    "ValueError": (ValueError, b"2B\x00\x01\x00\x01\x7f\x00\x03\x00\x04"),  # undefined service type
    "IndexError": (IndexError, b"2B\x00\x20\x00\x01\x81"),  # truncated option
}


def make_pdu(vc, payload, radio, opcode):
    flags = dict(have_options=vc.flag("f_opt"), is_reject=vc.flag("f_rej"), is_close=vc.flag("f_close"), is_connect=vc.flag("f_conn"), is_heartbeat=vc.flag("f_hb"), is_ack=vc.flag("f_ack"))
    if payload == "none":
        pl = None
    elif payload == "opaque":
        pl = Opaque()
    else:
        pl = RadioRegistrationService(opcode=RRSTypes[opcode], radio_ip=RadioIP(radio_id=RADIOS[radio]))
    return HSTRP(pkt_type=HSTRPPacketType(**flags), sn=vc.uint(16, "sn"), options=HSTRPOptions(), payload=pl), flags


def acks_in(vc, sent):
    """datagrams that are HSTRP acknowledgements (ack bit of the type octet set)"""
    out = []
    for data, addr in sent:
        t = data[3]
        out.append(vc.eq(t & 1 if vc.mode == "native" else (t & 1), 1))
    return out


@contract("HSTRPDatagramProtocol.datagram_received", "okdmr.dmrlib.protocols.hytera.hstrp_datagram_protocol:HSTRPDatagramProtocol.datagram_received", ["C17"],
          stubs=["HSTRP.from_bytes"])
def one_datagram(vc, handler, kind, payload, radio, opcode, exc="AssertionError", own="absent", others="Online", prelude=None):
    """own / others: what the registry holds for the acting radio / the other radio before the datagram (absent, Online,
    Offline) - any registry the invariant allows, so that the per-datagram clauses carry over any history"""
    cls = RRSDatagramProtocol if handler == "rrs" else HSTRPDatagramProtocol
    h = cls(port=3002)
    tr = Transport()
    h.transport = tr
    # arbitrary pre-state within the invariant
    connected = vc.flag("connected")
    h.hstrp_connected = connected
    sn0 = vc.uint(16, "own_sn")
    vc.assume(sn0 < 0xFFFF)
    h.sn = sn0
    other = "B" if radio == "A" else "A"
    pre_reg = {}
    if handler == "rrs":
        if others != "absent":
            pre_reg[str(RadioIP(radio_id=RADIOS[other]))] = RRSRadioState[others]
        if own != "absent":
            pre_reg[str(RadioIP(radio_id=RADIOS[radio]))] = RRSRadioState[own]
        h.registry = dict(pre_reg)
    addr = ("192.168.1.7", 30001)
    if prelude:
        # a history of length one before the datagram under test: a data message (registration of the OTHER radio) with its
        # own symbolic sequence number - whatever the handler remembers about earlier messages, in attributes this contract
        # knows nothing of, is then part of the pre-state (the two sequence numbers may be equal or differ)
        h.sn = 7  # (the own sequence number is literal here: its arithmetic is the business of the shapes without prelude)
        pre_pdu = HSTRP(pkt_type=HSTRPPacketType(), sn=vc.uint(16, "psn"), options=HSTRPOptions(),
                        payload=RadioRegistrationService(opcode=RRSTypes.RadioRegistrationRequest if prelude == "registration" else RRSTypes.RadioGoingOffline, radio_ip=RadioIP(radio_id=RADIOS[other])))
        GHOST.update(kind="hstrp", pdu=pre_pdu)
        h.datagram_received(pre_pdu.as_bytes() if vc.mode == "native" else b"prelude", addr)
        del tr.sent[:]
        connected, sn0 = h.hstrp_connected, h.sn
        pre_reg = dict(getattr(h, "registry", {}))
    data = b"datagram"
    if kind == "hstrp":
        pdu, f = make_pdu(vc, payload, radio, opcode)
        GHOST.update(kind="hstrp", pdu=pdu)
        if vc.mode == "native":  # natively the REAL parser runs: feed it the octets of that message, and expect what it makes of them
            data = pdu.as_bytes()
            try:
                pdu = HSTRP.from_bytes(data)
            except Exception:
                pdu = None
            if pdu is None:
                kind = "raises"
            else:
                t = pdu.pkt_type
                f = dict(have_options=t.have_options, is_reject=t.is_reject, is_close=t.is_close, is_connect=t.is_connect, is_heartbeat=t.is_heartbeat, is_ack=t.is_ack)
                if isinstance(pdu.payload, RadioRegistrationService):
                    payload, opcode = "rrs", pdu.payload.opcode.name
                    radio = {v: k for k, v in RADIOS.items()}.get(pdu.payload.radio_ip.radio_id, radio)
                else:
                    payload = "opaque" if pdu.payload is not None else "none"
    else:
        GHOST.update(kind=kind, exc=RAISING[exc][0] if kind == "raises" else None, pdu=None)
        f = None
        if vc.mode == "native":
            data = RAISING[exc][1] if kind == "raises" else b"2B\x00"
    ret = h.datagram_received(data, addr)
    vc.prove("returns_a_pair", isinstance(ret, tuple) and len(ret) == 2)
    if kind != "hstrp":
        vc.prove("undecodable_datagram_is_not_answered", len(tr.sent) == 0)
        vc.prove("undecodable_datagram_changes_nothing", vc.and_(vc.iff(h.hstrp_connected, connected), vc.eq(h.sn, sn0)))
        return
    sn = pdu.sn
    is_rrs_request = payload == "rrs" and opcode == "RadioRegistrationRequest"
    acks = [(d, a) for d, a in tr.sent if vc.fork(vc.eq(d[3] & 1, 1))]  # ack bit of the type octet
    heartbeats = [(d, a) for d, a in tr.sent if (d, a) not in acks and vc.fork(vc.eq(d[3] & 2, 2))]
    rrs_answers = [(d, a) for d, a in tr.sent if (d, a) not in acks and (d, a) not in heartbeats]
    # message kinds of the statement: a well-formed connect / close / heartbeat / data message has exactly its own type bit
    # (data: none of the five control bits); anything carrying the ack bit is an acknowledgement
    no = lambda *names: [vc.not_(f[n]) for n in names]
    is_ack = f["is_ack"]
    k_connect = vc.and_(f["is_connect"], *no("is_close", "is_heartbeat", "is_reject", "is_ack"))
    k_close = vc.and_(f["is_close"], *no("is_connect", "is_heartbeat", "is_reject", "is_ack"))
    k_heartbeat = vc.and_(f["is_heartbeat"], *no("is_connect", "is_close", "is_reject", "is_ack"))
    k_data = vc.and_(*no("is_connect", "is_close", "is_heartbeat", "is_reject", "is_ack"))
    if vc.fork(is_ack):
        vc.prove("an_acknowledgement_is_never_acknowledged", len(acks) == 0)
    elif vc.fork(vc.or_(k_connect, k_close, k_data)):
        vc.prove("connect_close_data_answered_by_exactly_one_acknowledgement", len(acks) == 1)
        if len(acks) == 1:
            d, a = acks[0]
            vc.prove("acknowledgement_carries_the_same_sequence_number", vc.eq(d[4:6], (sn.to_bytes(2, "big") if not isinstance(sn, int) else int(sn).to_bytes(2, "big"))))
            vc.prove("acknowledgement_has_no_payload", len(d) == 6)
            vc.prove("acknowledgement_goes_to_the_sender", a == addr)
        vc.prove("no_heartbeat_without_a_heartbeat", len(heartbeats) == 0)
    elif vc.fork(k_heartbeat):
        vc.prove("heartbeat_echoed_iff_connected", vc.iff(len(heartbeats) == 1, connected) and len(heartbeats) <= 1)
        vc.prove("heartbeat_is_not_acknowledged", len(acks) == 0)
    # connected flag = 'last connect/close seen was a connect' (a connect / close may itself be an acknowledged one)
    if vc.fork(vc.and_(f["is_connect"], *no("is_close", "is_heartbeat"))):
        vc.prove("connect_sets_connected", h.hstrp_connected)
    elif vc.fork(vc.and_(f["is_close"], *no("is_connect", "is_heartbeat"))):
        vc.prove("close_clears_connected", vc.not_(h.hstrp_connected))
    elif vc.fork(vc.and_(*no("is_connect", "is_close"))):
        vc.prove("other_messages_leave_connected_alone", vc.iff(h.hstrp_connected, connected))
    # registry and RRS answers
    if handler == "rrs":
        key_other = str(RadioIP(radio_id=RADIOS[other]))
        vc.prove("other_radio_entry_untouched", h.registry.get(key_other) is pre_reg.get(key_other))
        key = str(RadioIP(radio_id=RADIOS[radio]))
        if is_rrs_request:
            vc.prove("registration_marks_the_radio_online", h.registry.get(key) is RRSRadioState.Online)
            vc.prove("registration_answered_by_exactly_one_answer", len(rrs_answers) == 1)
            if len(rrs_answers) == 1:
                d, a = rrs_answers[0]
                vc.prove("answer_sequence_number_fits_16_bits_and_increments", vc.and_(vc.eq(h.sn, (sn0 + 1) if vc.mode == "native" else h.sn), h.sn >= 0, h.sn <= 0xFFFF))
                want = RadioRegistrationService(opcode=RRSTypes.RadioRegistrationAnswer, radio_ip=RadioIP(radio_id=RADIOS[radio]), result=RRSResult.Success, renew_time_seconds=300).as_bytes()
                vc.prove("answer_is_a_success_answer_for_that_radio", vc.eq(d[-len(want):], want))
        elif payload == "rrs" and opcode == "RadioGoingOffline":
            vc.prove("going_offline_marks_the_radio_offline", h.registry.get(key) is RRSRadioState.Offline)
            vc.prove("no_rrs_answer_without_a_registration_request", len(rrs_answers) == 0)
        else:
            vc.prove("registry_unchanged_otherwise", h.registry.get(key) is pre_reg.get(key) and set(h.registry) == set(pre_reg))
            vc.prove("no_rrs_answer_without_a_registration_request", len(rrs_answers) == 0)
    else:
        vc.prove("plain_hstrp_layer_sends_only_acks_and_heartbeats", len(rrs_answers) == 0)
    vc.prove("own_sequence_number_stays_in_range", vc.and_(h.sn >= 0, h.sn < 0xFFFF))


def _shapes(tier):
    for handler in ("hstrp", "rrs"):
        yield dict(handler=handler, kind="none", payload="none", radio="A", opcode="")
        for exc in RAISING:
            yield dict(handler=handler, kind="raises", payload="none", radio="A", opcode="", exc=exc)
        yield dict(handler=handler, kind="hstrp", payload="none", radio="A", opcode="")
        yield dict(handler=handler, kind="hstrp", payload="opaque", radio="A", opcode="")
        for op in ("RadioRegistrationRequest", "RadioGoingOffline", "RegistrationStatusCheckRequest", "RadioRegistrationAnswer", "RegistrationStatusCheckAnswer"):
            for r in ("A", "B"):
                yield dict(handler=handler, kind="hstrp", payload="rrs", radio=r, opcode=op)
                if handler == "rrs" and r == "A" and op in ("RadioRegistrationRequest", "RadioGoingOffline"):
                    for pl in ("registration", "offline"):
                        if tier != "quick" or pl == "registration" or op == "RadioGoingOffline":
                            yield dict(handler=handler, kind="hstrp", payload="rrs", radio=r, opcode=op, own="Online" if op == "RadioGoingOffline" else "absent", others="absent", prelude=pl)
                if handler == "rrs" and (r == "A" or tier != "quick"):
                    # the radio's last event before this datagram: none / registration / going offline
                    for own in ("Online", "Offline"):
                        yield dict(handler=handler, kind="hstrp", payload="rrs", radio=r, opcode=op, own=own, others="Offline" if own == "Online" else "absent")


one_datagram.shapes = _shapes
