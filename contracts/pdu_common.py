"""shared helpers of the PDU / element contracts (C03, C04, C01)"""
import enum

DOCUMENTED = (NotImplementedError, KeyError, ValueError, AssertionError)


def is_bits(x):
    return hasattr(x, "tolist") and hasattr(x, "endian") or type(x).__name__ in ("bitarray", "SBits")


def same(vc, a, b):
    """structural equality of two field values -> (symbolic) truth value"""
    if a is None or b is None:
        return a is None and b is None
    if type(a).__name__ == "SymMember" or type(b).__name__ == "SymMember":
        return (a == b) if type(a).__name__ == "SymMember" else (b == a)
    if isinstance(a, enum.Enum) or isinstance(b, enum.Enum):
        return a is b
    if is_bits(a) or is_bits(b):
        if not (is_bits(a) and is_bits(b)) or len(a) != len(b):
            return False
        return vc.eq(a, b)
    if isinstance(a, float) or isinstance(b, float):
        return a == b
    if type(a).__name__ in ("bytes", "SBytes", "bytearray", "SByteArray", "ZBytes") or type(b).__name__ in ("bytes", "SBytes", "bytearray", "SByteArray", "ZBytes"):
        if len(a) != len(b):
            return False
        return vc.eq(a, b)
    if isinstance(a, (list, tuple)) and isinstance(b, (list, tuple)):
        return len(a) == len(b) and vc.and_(*[same(vc, x, y) for x, y in zip(a, b)])
    if hasattr(a, "__dict__") and hasattr(b, "__dict__") and not isinstance(a, type):
        if type(a) is not type(b) or set(vars(a)) != set(vars(b)):
            return False
        return vc.and_(*[same(vc, vars(a)[k], vars(b)[k]) for k in sorted(vars(a))])
    if isinstance(a, bool):
        a = int(a)
    if isinstance(b, bool):
        b = int(b)
    return vc.eq(a, b)


def compare_fields(vc, built, parsed, prefix="field.", skip=()):
    """one named clause per attribute of the built object: the parsed object carries an equal value"""
    vc.prove("parsed_object_is_of_the_same_class", type(parsed) is type(built))
    for f in sorted(vars(built)):
        if f in skip or f.startswith("_"):
            continue
        vc.prove(prefix + f, hasattr(parsed, f) and same(vc, getattr(parsed, f), getattr(built, f)))


def enum_of(vc, cls, width, name, lit=None):
    """a defined member of an element enumeration, chosen by a symbolic value (forks over the members; an undefined
    value is outside the precondition 'built from in-range field values').  Large enumerations that do not steer control
    flow are enumerated through the shape instead (lit = literal member value) to keep the path count additive."""
    from pyvc.contract import PathEnd

    if lit is not None:
        return cls(lit)
    v = vc.pick(name, [m.value for m in cls], width)
    try:
        return cls(v)
    except (ValueError, AssertionError):
        raise PathEnd()


def flagval(vc, name):
    """a 0/1 flag as the int the constructors accept"""
    return vc.bit(name)


def spread(values, tier, k=3):
    """all values in the thorough tier; first, last and a middle one (k of them) in the quick tier"""
    values = list(values)
    if tier == "thorough" or len(values) <= k:
        return values
    idx = sorted({0, len(values) - 1} | {round(i * (len(values) - 1) / (k - 1)) for i in range(k)})
    return [values[i] for i in idx]
