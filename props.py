"""per-property metadata of the checks (what is assumed / bounded); contracts themselves live in contracts/*.py"""
CONTRACT_MODULES = [
    "contracts.canaries",
    "contracts.fec_block",
    "contracts.crc",
    "contracts.bptc",
    "contracts.trellis",
    "contracts.rs",
    "contracts.vbptc",
    "contracts.pdu_csbk",
    "contracts.pdu_other",
    "contracts.elements",
    "contracts.pdu_integrity",
    "contracts.burst",
    "contracts.tx",
    "contracts.purity",
    "contracts.mbxml_num",
    "contracts.ipsc",
    "contracts.hstrp_handler",
    "contracts.storage",
    "contracts.p2p_rdac",
    "contracts.tracker",
    "contracts.hytera",
    "contracts.motorola",
    "contracts.mbxml_doc",
    "contracts.pairs",
]

TRUSTED_BASE = [
    "CPython 3.12 executes the real code objects (control flow, object model, exceptions are not modelled)",
    "pyvc value models of bitarray / numpy / int / bytes / enum (validated differentially against the real libraries and by the native cross-check on every run)",
    "pyvc gf2 canonical forms + Gaussian elimination, bit-parallel enumeration, loop cutter, counter-model extraction",
    "z3 5.1 where a query reaches it (word-level arithmetic, integer counters, components beyond the enumeration limit); cvc5 is installed by setup.sh but no query is routed to it",
]
ASSUMPTIONS = [
    "Python integers are mathematical integers (kept exact by the models; no machine arithmetic in the code under contract)",
    "termination is implied only where exploration terminates on all paths of the shape",
]

PROPS = {
    "C06": dict(
        level_text="Proof for all inputs: systematic / passes-check / frame clauses on all 2^k messages (symbolic contents, one path), check accepts exactly the codewords on all 2^n words, single-error repair for every position and (16,11,4) double-error rejection for all 120 pairs on symbolic codewords; minimum distance by exact enumeration of the linear map extracted from the real encoder.",
        level_note="Trusted: CPython, pyvc models of bitarray/numpy (cross-checked natively each run), gf2 back end. The codes' (n,k,d) parameters are those the class names / ETSI B.3.1-B.3.5 advertise; the standard's matrices themselves are not available offline, so 'is the ETSI matrix' is not claimed - the statement's clauses are.",
        explanation="Hamming/Golay/QR: contracts on generate/check/check_and_correct, all 2^k messages and all 2^n words as symbolic contents; kernel/image/distance lemmas on the linear maps extracted from the real code",
    ),
    "C05": dict(
        level_text="Proof per literal length with fully symbolic contents: the five CRC engines (bit-serial loop cut by its LFSR invariant, table-driven register over the real look-up table) equal the monomial-remainder spec for every length in the tier's set (thorough: every length 0..400, both modes), front ends CRC-8/9/CCITT/32 apply inversion / mask / octet order, check accepts exactly the computed value, leftover register contents do not matter; burst/1-3-bit detection as a rank lemma on the linear map extracted from the real engine.",
        level_note="Quick tier covers lengths 0..33 plus every feed-width residue and the PDU lengths, thorough every length 0..400. Generator polynomials, masks and the CRC-32 octet order are transcribed from knowledge of ETSI TS 102 361-1 B.3.7-B.3.12 (no copy offline) - an assumption. Trusted: CPython, pyvc models, gf2 back end.",
        explanation="contracts on BitCrcRegister._process_bits (loop cut), calculate_checksum, CRC8/9/16/32 front ends vs spec/crc.py",
        assumptions=["ETSI polynomials / masks / CRC-32 word order are transcribed from knowledge of the standard, not from an offline copy"],
    ),
    "C02": dict(
        level_text="Proof for all 2^96 messages: one symbolic run per literal error pattern; round trip with/without repair, every single inverted bit (196) and double errors (quick: the 2730 pairs sharing a matrix row/column or touching R(3); thorough: all 19110 pairs) decode to the message; repair leaves an error-free codeword unaltered in both entry modes; frames.",
        level_note="Trusted: CPython, pyvc models of bitarray/numpy object arrays, gf2 back end. Hamming callees are inlined (affine) and separately under their C06 contracts.",
        explanation="contracts on BPTC19696.encode / deinterleave_data_bits / repair_if_necessary / deinterleave_all_bits",
    ),
    "C10": dict(
        level_text="Proof for all 2^144 blocks: table lemmas (permutation, bijections, 8 distinct points per state), encoder output length and decoder front half on symbolic blocks, the decoder loop cut per iteration with a functional invariant (all 49 iterations, free received point: rejected iff no successor emits it), decode(encode(b)) = b for bits and bytes through the loop's contract.",
        level_note="Trusted: CPython, pyvc finite-function tables (SFun), loop cutter (one `for` rewritten mechanically from the current source each run), enumeration back end.",
        explanation="contracts on all Trellis34 static methods",
    ),
    "C11": dict(
        level_text="Proof: log_multiply equals the GF(2^8) product on all 65536 pairs (symbolic operands, point-wise tables); generate on 9 symbolic octets and a symbolic mask is systematic with zero syndromes at alpha^1..3; check accepts exactly zero-syndrome words (12 free octets, free mask); every 1-3 octet corruption detected by a rank lemma on the parity map extracted from the real generate.",
        level_note="generate/check are verified against log_multiply's contract (stub), which is discharged in the same run. Trusted: CPython, pyvc models, spec/gf256.py (from-scratch carry-less multiply).",
        explanation="contracts on ReedSolomon1294.log_multiply / generate / check",
    ),
    "C09": dict(
        level_text="Proof for all 2^72 / 2^28 / 2^11 messages (symbolic contents, exhaustive paths): encoders yield 128/68/32 bits, extractors return the message, every data row of the transmitted matrix passes the row code's real check, every column obeys its parity rule (both parities for the single-burst code), the CS5 / CRC-8 read back by the library's extractor equals the checksum it computes (CS5 = sum of octets mod 31 as a word-level arithmetic term decided by z3), and the three input forms encode identically.",
        level_note="The CRC-8 extractor hands the bits out LSB first (pinned by the repository's own test); the read-back clause reads them in that order. Trusted: CPython, pyvc models, gf2 / z3 back ends; CRC-8 through the C05 contract chain.",
        explanation="contracts on VBPTC12873 / VBPTC6828 / VBPTC3211 encode and extractors, FiveBitChecksum",
    ),
    "C03": dict(
        level_text="Proof per PDU kind with fully symbolic field values: build -> as_bits -> from_bits compares EVERY attribute of the parsed object with the built one (so a field dropped in either direction is a named failed clause), fixed length, identical re-serialisation, bytes view; any right-length bit string (shapes split by the literal discriminator, all other bits free) raises a documented error or decodes to a fixed point of decode-then-encode; every element enumeration of layer2/layer3 elements is total over its width through the real Enum call and _missing_ hooks.",
        level_note="Large enumerations that do not steer control flow (feature set id, NACK service type, announcement type, answer response) are enumerated through literal shapes: a spread of members in the quick tier, all members in the thorough tier. GPS Info coordinates (floats) are a bounded native contract (4000 random + boundary raw words per run), never counted as proved. Enum calls on symbolic values are executed natively on every value of the argument (finite function), which trusts that _missing_ hooks are deterministic.",
        explanation="contracts on CSBK, DataHeader, FullLinkControl, ShortLinkControl, PIHeader, Rate12/34/1Data, UDPIPv4CompressedHeader, SlotType, EmbeddedSignalling, ServiceOptions, FragmentSequenceNumber and 31 element enumerations",
        bounded_parts=[dict(what="FullLinkControl GPS Info longitude/latitude float scaling", bound="4000 random + boundary raw 25/24-bit words per run, seeded by VERIF_SEED", contract="FullLinkControl.gps_bounded")],
    ),
    "C04": dict(
        level_text="Proof: (1) every PDU with a check field built from symbolic fields parses back with its indicator true (slot type, EMB, data header, PI header, short LC, confirmed blocks, HRNP); (2) slot type and EMB indicators equal Golay / QR codeword membership on ALL 2^20 / 2^16 received words, and the Golay / QR codes themselves have the advertised parameters (the C06 code contracts are part of this check); (3) for data headers (5 formats), PI header, short LC and confirmed data blocks (3 rates): every single inverted bit and every non-zero SYMBOLIC burst confined to a window of check-field width at a literal position (in transmitted codeword order), applied to a PDU built from symbolic fields, makes the parse raise, or the indicator false, or leaves every field value as sent; for the CRC-CCITT and CRC-8 protected PDUs also literal weight-2 and weight-3 patterns (both polynomials have the factor x+1 and a period above the word length); the HRNP checksum is proved equal to the ones-complement definition (contract HRNP.verify_checksum.word_level).",
        level_note="Quick tier: every single-bit position, burst windows at every eighth position, two unaligned ones and the check-field boundary, 40 pairs + 40 triples per PDU kind (short LC: all pairs, 200 triples); thorough: every window start, all pairs, 2000 triples (short LC: all triples). Weight-2/3 detection is not claimed for the CRC-9 (its polynomial has no factor x+1). Four witness classes are recorded as known findings (in-band zero sentinels on received words that the repository's tests pin, CRC-32 = 0 treated as absent), each under its own obligation name, so the main obligations stay sharp.",
        explanation="contracts SlotType/EmbeddedSignalling.from_bits.all_words, *.detects_corruption, parsed_back_*_ok clauses of the build_parse contracts, BlockCode.generate / check, HRNP.as_bytes, HRNP.verify_checksum.word_level",
    ),
    "C01": dict(
        level_text="Proof per (payload kind, data sync pattern) with symbolic colour code and symbolic payload fields: the library's own assembly idiom -> 33 octets -> Burst.from_bytes gives the same data type, colour code, sync pattern, payload bits and every payload attribute (typed view for rate blocks), identical re-serialisation, slot parity ok; all 2^216 vocoder payloads around each voice sync pattern, and around valid EMB (any cc / PI / LCSS) with any 32 embedded bits, survive parse-then-serialise bit for bit.",
        level_note="Quick tier: every payload kind with one of the four data sync patterns (rotating) plus all four for two kinds; thorough: all kind x sync combinations. Rate 3/4 goes through the C10 loop contract of the trellis decoder (stub with call-site obligation); CRC bit-serial tail through C05. Feature set id of CSBK / LC payloads is a literal (0) here - its totality is C03's.",
        explanation="contracts Burst.assemble_parse / voice_sync / voice_emb",
    ),
    "C07": dict(
        level_text="Proof per configuration (rate x confirmed x literal payload length x preamble count) with symbolic payload octets, colour code and addresses: generator -> as_bytes -> Burst.from_bytes -> Transmission.process_packet yields exactly one started and one data-ended event, all data blocks, data = payload followed by the announced pad octets (fragmentation arithmetic re-derived independently), trailing CRC-32 equal to the spec remainder over that data, every confirmed block crc9_ok, preamble count-down correct on both sides.",
        level_note="Quick tier: the block-boundary neighbourhoods of the first three blocks for each of the 6 rate/mode configurations with symbolic contents, plus three long payloads per configuration (up to 1500 octets / 127 blocks) with LITERAL payload bytes (only colour code and addresses symbolic) - the block arithmetic is what varies there. Thorough: every length up to three blocks symbolic, every 7th length to 1500 literal. Lengths whose block count exceeds the header's 7-bit field are outside the precondition. BPTC decoder inside the receiver: through its contract (codeword the encoder produced -> message; anything else -> some 96 bits, over-approximation); trellis decoder loop and CRC bit-serial tail through their contracts.",
        explanation="contract Transmission.generated_is_received",
        bounded_parts=[dict(what="payload contents of the long (>3 blocks) transmissions", bound="one literal byte pattern per length", contract="Transmission.generated_is_received[symbolic=False]")],
    ),
    "C19": dict(
        level_text="Proof part: every codec contract tagged C19 (CRC engines and front ends, block codes, BPTC / VBPTC, trellis, RS, all PDUs and elements, burst) carries frame clauses (argument buffers element-wise unchanged after every path), runs with the shared CRC register singletons HAVOCKED to arbitrary symbolic contents (results are proved equal to a spec that cannot mention them = non-interference), and a tripwire clause: no wall-clock or randomness source is consulted on any path. Bounded part: seeded random histories over 50 public entry points, later inputs partly derived from earlier inputs/outputs, every call re-asked from a pristine (forked, never-used) interpreter state.",
        level_note="The history check is a bounded stand-in for 'all interleavings' (24 histories of 40/120 calls per quick run; never counted as proved). Mutable default arguments and class-level caches are covered only through it. The in-place Hamming repair is exercised on private copies (documented exception). Hytera / Motorola entry points: see C12 / C14-C16 contracts (frame clauses there).",
        explanation="frame / havoc / tripwire clauses of all contracts tagged C19 + purity.history",
        bounded_parts=[dict(what="call histories", bound="24 seeded histories x 40..120 calls per quick run (thorough: up to 400 calls), 50 entry points", contract="purity.history")],
    ),
    "C14": dict(
        level_text="Proof for ALL 2^32 unsigned values and all signed values of magnitude <= 2^31-1: write_uintvar / write_sintvar on one symbolic value (the bin() model forks over the 33 bit lengths) produce the canonical shortest septet sequence, read_* returns exactly the value, the sign, and consumes exactly the written octets also when other octets follow; write_infotime on symbolic calendar fields 2000..2099 is inverted by the shift/mask decoding. Bounded (native, never counted as proved): float writers over (integer boundary set) x (k/128^p, p=1..3) both signs, latitude / longitude over a seeded grid incl. negatives and the +-90 / +-180 edges.",
        level_note="Floats are outside the engine (bounded: 3000 + 2000 native evaluations per run). Latitude / longitude are decoded with the XML view's formula, the 4 octets read as a signed integer (as of fix 13365f5). Signed symbolic integers are a sign-magnitude model (abs, unary minus, comparison with 0, equality).",
        explanation="contracts MBXML.uintvar / sintvar / write_infotime + bounded floatvar / latlong",
        bounded_parts=[dict(what="ufloatvar / sfloatvar round trip", bound="3000 seeded (integer boundary, fraction) pairs per run, p = 1..3", contract="MBXML.floatvar_bounded"), dict(what="latitude / longitude", bound="2000 seeded values per run incl. edges", contract="MBXML.latlong_bounded")],
    ),
    "C13": dict(
        level_text="Proof per (slot type, timeslot, call type) shape over symbolic well-formed 72-octet frames (symbolic sequence number, colour code, 24-bit ids, all reserved octets, pad octet, and an inner burst assembled from symbolic PDU fields / vocoder bits): both decoders give colour = the 4-bit field, ids = the 24-bit fields, same sequence number, types, payload, burst class, payload bits, timeslot; as_ipsc_bytes() of either reproduces the 72 octets.",
        level_note="The kaitai-generated IpSiteConnectProtocol parser is under an ASSUMED contract (KaitaiView: attributes = octets at the .ksy offsets, ids = raw >> 8, colour = raw & 15), validated natively against the real parser on 400 seeded frames per run (bounded, not proved). Well-formed = fixed header 5a5a, defined type values, the low octet of each U4LE id field zero, wake-up call types only with the wake-up slot type. Quick tier: half of the (slot, timeslot, call) combinations; thorough: all.",
        explanation="contract HyteraIPSC.frame + bounded kaitai.assumed_contract",
        assumptions=["assumed contract of the third-party kaitai parser IpSiteConnectProtocol (validated natively each run)"],
        bounded_parts=[dict(what="assumed contract of the kaitai parser", bound="400 seeded frames per run", contract="kaitai.assumed_contract")],
    ),
    "C17": dict(
        level_text="Inductive proof over datagram histories of any length: ONE datagram delivered to the handler in an ARBITRARY state within the invariant (symbolic connected flag, symbolic own sequence number < 65535, another radio already in the registry), with HSTRP.from_bytes replaced by its over-approximating contract (raises any of the parser's exception classes | None | an HSTRP with six symbolic type flags, symbolic 16-bit sn and payload none / opaque HDAP / RRS with literal opcode and radio): never raises; undecodable datagrams are not answered and change nothing; connect / close / data get exactly one ack with the same sn, no payload, to the sender; anything with the ack bit is never acknowledged; heartbeat echoed iff connected; connected flag follows connect/close; registry entry of the addressed radio updated, of the other radio untouched; one RRS success answer with 16-bit sn per registration request. Init (fresh handler) satisfies the invariant by construction.",
        level_note="Radio addresses: a pool of two literal radios (the registry key is a formatted string). The parser over-approximation is discharged only for datagram lengths 0, 1, 5, 6 (HSTRP.from_bytes.over_approximation); for longer datagrams it is an assumed (type-level) contract - the parser's own precision is C12's business. Native replay feeds real octets through the real parser. Timing (periodic_maintenance) is out of scope.",
        explanation="contract HSTRPDatagramProtocol.datagram_received (both handler classes)",
        assumptions=["HSTRP.from_bytes over-approximation is assumed for datagrams longer than 6 octets (returns None, raises, or yields an HSTRP with boolean flags / 16-bit sn / HDAP-or-None payload)"],
    ),
    "C20": dict(
        level_text="Inductive proof over operation histories: ONE operation (match_incoming with / without auto-create and each patch kind, save, the lookups, attr / delete_attr / patch, a patch naming 'id') from every storage pre-state of 0..3 records over a pool of 4 literal addresses, reached by histories that also contain missed lookups; patched values symbolic: same object for the same address, creation only on an auto-creating lookup of an unseen address (fresh id, stored under it), len unchanged otherwise, a patch sets exactly the named members / attributes of exactly the matched record, no other record changes, invariant (key = id, ids distinct) re-established.",
        level_note="Bound: <= 3 records, 4 literal addresses, 6 patch shapes (values symbolic). Hidden state of the storage is only reachable through the histories that build the pre-states (creations preceded / interleaved by missed lookups). uuid4 freshness is an assumption. Mostly concrete exploration (one path per shape).",
        explanation="contracts RepeaterStorage.match_incoming / lookups / save / patch_of_id, Repeater.attr",
        assumptions=["uuid.uuid4 returns a fresh id"],
    ),
    "C08": dict(
        level_text="Inductive proof over burst histories: ONE parseable burst of the alphabet (voice LC header, terminator, data header confirmed / unconfirmed / response / short data, preamble CSBK, other CSBK, rate 1/2, 3/4, 1 data block, voice SYNC burst, voice EMB burst; contents symbolic) delivered through Terminal.process_incoming_burst to a timeslot whose tracker is in ANY state of the invariant INV (type idle / voice / data; header none / full LC / data header; any collected blocks; counters, confirmed flag, rx sequence symbolic; last voice label any), with a recorder between two observers that raise on every notification: no exception; an end only for the open kind; it hands over the header (the latest received) and exactly the PDUs collected since the start; stream id constant during a transmission and fresh after its end; idle afterwards unless the burst itself opens the next transmission; INV holds again; A-F labelling and its memory; rx sequence +1 mod 256 and restart after an end; the other timeslot untouched; and the same state and burst on a second terminal without raising observers produce the same notifications and tracker state.",
        level_note="Bound: counters below 512 in the pre-state (Python ints are unbounded; the code adds small constants and tests equality only); at most 2 collected blocks besides the header; payload flags the tracker never reads are literal (FewFlags); quick tier: 4 of 5 pre-state families, 4 of 7 last-voice labels, literal block contents where no data block closes the transmission. secrets.token_bytes is replaced by a ghost that never repeats a value (assumed contract of the OS random source). BPTC / trellis / CRC callees by contract (C02, C10, C05).",
        explanation="contract Timeslot.process_burst (covers Terminal.process_incoming_burst, Transmission.*, WithObservers fan-out, Timeslot.get_rx_sequence)",
        assumptions=["secrets.token_bytes(4) never returns a value it returned before (holds with probability 1 - n*2^-32)"],
    ),
    "C12": dict(
        level_text="Per-function contracts, proved for all field values per literal payload length: every implemented RRS (5), LP (2), TMP (8, with / without option field) and RCP (17) opcode built from symbolic in-range fields serialises to service octet | reliable flag, the opcode octets, a length field equal to the payload length in the protocol's endianness (RCP little, others big), the checksum of exactly opcode..payload, 0x03, len(p) = number of octets; HDAP.from_bytes gives equal fields and the same octets again. HRNP: header octets, length field = number of octets, checksum field = checksum of header + payload, parse back equal, checksum verifies - for nested real messages and for ANY nested message of 7 / 8 / 60 octets (T: up to 1000). HSTRP: header, type octet, 16-bit sn, option TLV chain with continuation bits for 0..3 options, nested frame, parse back equal. The two checksum functions are proved separately on WORD-LEVEL octets (every octet and header field an integer variable with its range, the whole function in linear integer arithmetic, z3; no loop is cut, payloads up to 300 (T: 1001) octets) against independent arithmetic definitions (HDAP: c + sum = 0x32 mod 256; HRNP: 0xFFFF - (word sum reduced modulo 65535, 0 only for 0)) and enter the frame contracts as stubs whose value is tied to its argument by a ghost record.",
        level_note="Bounded (native enumeration, never counted as proved): GPS text block (float formatting, strftime) on the grid the fixed-width fields can represent - one factor at a time plus 60 (T: 3000) seeded combinations - each also nested in an LP report frame; str -> UTF-16-LE text (8 seeded texts incl. CJK, surrogate pairs, 200 characters) with HRNP nesting. Literal lengths: text / short data 0, 6 (T: 0..300), option data none / 0 / 3 (T: ..64) octets. Precondition of the HSTRP contract: the option flag is set exactly when the option list is not empty (a set flag with an empty list has no representation; RRSDatagramProtocol.rrs_confirm builds such a frame - noted in DESIGN.md, outside the listed properties).",
        explanation="contracts HDAP.as_bytes, HDAP.get_hdap_checksum.word_level, HRNP.as_bytes, HRNP.verify_checksum.word_level, HSTRP.as_bytes; bounded: GPSData.as_bytes, TextMessageProtocol.text_as_str",
        bounded_parts=["GPSData.as_bytes / from_bytes: literal values on the representable grid", "TextMessageProtocol text given as str: 8 seeded texts"],
        assumptions=["an HSTRP option flag is set exactly when the option list is not empty (in-range precondition)"],
    ),
    "C15": dict(
        level_text="Per-function contracts, proved for all symbolic token values per literal token sequence: a buffer composed by an independent serialiser (canonical form, written from the format description) of 1..3 LRRP documents over all 18 LRRP document ids that carry tokens, each with a literal sequence of 0..12 implemented element tokens (request-id opaque of 0..9 (T: ..200) octets, one-octet request-id, uintvars of 1..5 septets, uint8, valueless elements, info-time, point-2d, the three result forms with serialised / implied result-code attribute and 0..3 (T: ..130) content octets) with symbolic values, an inline constant table of 0..5 symbolic octets or the inherited-table marker: MBXML.from_bytes returns one document per announced length with exactly these document ids, token ids, values, attribute values and constant tables, and MBXML.as_bytes gives the identical octets. A document assembled through get_token (element by id, attribute by id / name, symbolic values) serialises to octets that parse back into the same token ids and values and serialise identically.",
        level_note="Bounded (native enumeration, never counted as proved): float-valued tokens (ufloatvar / sfloatvar elements, circle-2d radius, point-3d altitude) over 12 / 15 literal values with one-septet fractions, also as two documents in one buffer. Token sequences are literal: every document id and every token at least once plus 40 (T: 1500) seeded sequences. MBXML.write_uintvar enters by its C14 contract (stub): the real function goes through bin() - one path per bit length. Unimplemented tokens (request-id from the constant table 0x24, circle-3d, point-3d with accuracy) are outside the statement.",
        explanation="contracts MBXML.from_bytes, MBXMLDocument.get_token, MBXML.uintvar (C14, provider of the write_uintvar stub); bounded: MBXML.float_tokens",
        bounded_parts=["float-valued tokens: literal values with one-septet fractions"],
    ),
    "C16": dict(
        level_text="Per-function contracts, proved for all symbolic contents per literal length: TMS service availability (with / without capability header), acknowledgement (with / without acknowledged sequence number) and simple text message (sequence number 0..127 symbolic, encoding none / UCS-2, message and address symbolic octets) built from fields with all first-header flags symbolic: leading length = octets that follow, first header octet, address field, optional header = 1 or 2 octets exactly as the sequence number / encoding require with the 5 + 2 bit split, message placement; from_bytes gives equal fields (incl. every header flag) and the same octets again. ARS acknowledgement (refresh time 1..127 / failure reason / no second header), status query, de-registration notice with all flags symbolic, with and without CSBK trailer: leading length, __len__, first header octet, trailer exactly when flagged, second header octet, fields, re-serialisation.",
        level_note="Bounded (native enumeration, never counted as proved): ARS device / user registration requests - identifiers and passwords are str objects (UTF-8), 14 seeded strings incl. multi-octet characters, control characters and 255-octet values in 120 (T: 4000) seeded combinations with flags / request header / trailer, plus each string once per position. Literal lengths: address 0, 3 (T: ..255), message 0, 6 (T: ..400) octets. The second ARS response header carries ONE octet whose meaning the first header selects: the contract compares the selected field (refresh time or failure reason), not the unused alternative.",
        explanation="contracts TextMessagingService.as_bytes, AutomaticRegistrationService.as_bytes; bounded: AutomaticRegistrationService.registration_strings",
        bounded_parts=["ARS registration request identifiers / passwords: seeded strings"],
    ),
    "C18": dict(
        level_text="Inductive proof over datagram histories: ONE datagram (registration / DMR start-up / RDAC start-up / ping / ack / unknown command / truncated command / garbage, literal prefixes with symbolic filler octets) from one of three peers, delivered to the P2P handler over a storage pre-state in which each peer is absent / present-unregistered / present-registered: acceptance, redirect and ping answers only for a source registered in the pre-state and only to its stored outbound address or the requester; exactly the single-byte reject to the requester otherwise; only a registration creates or registers; other peers' records untouched. RDAC: one datagram (1-byte reset / the expected response with symbolic body / an unexpected response / garbage) for every step 0..14: the step advances only on the expected response, a reset restarts (step 1, one STEP0 request to that peer), another peer's step never changes, completion callback exactly on 13 -> 14 with that peer's record id.",
        level_note="Bound: 3 peers (quick: 8 of the 27 status combinations; thorough: all), literal datagram lengths, step-6 text region literal (UTF-16 decoding is outside the engine). Repeater.read_snmp_values (network) is replaced by a stub in both modes - an assumed external contract, as the property's hook note says. A peer is an IP for RDAC (as in the property's state description). ValueError (octet overflow of data[4] += 1) and IndexError (truncated ping) are tolerated outcomes: the statement does not claim the handlers never raise.",
        explanation="contracts P2PDatagramProtocol.datagram_received, RDACDatagramProtocol.datagram_received",
        assumptions=["Repeater.read_snmp_values is replaced by a stub returning no values (network I/O)"],
    ),
}
