"""per-property metadata of the checks (what is assumed / bounded); contracts themselves live in contracts/*.py"""
CONTRACT_MODULES = [
    "contracts.canaries",
    "contracts.fec_block",
]

TRUSTED_BASE = [
    "CPython 3.12 executes the real code objects (control flow, object model, exceptions are not modelled)",
    "pyvc value models of bitarray / numpy / int / bytes / enum (validated differentially against the real libraries and by the native cross-check on every run)",
    "pyvc gf2 canonical forms + Gaussian elimination, bit-parallel enumeration, loop cutter, counter-model extraction",
    "z3 5.1 / cvc5 1.4 where a query reaches them",
]
ASSUMPTIONS = [
    "Python integers are mathematical integers (kept exact by the models; no machine arithmetic in the code under contract)",
    "termination is implied only where exploration terminates on all paths of the shape",
]

PROPS = {
    "C06": dict(
        level_text="Proof for all inputs: systematic / passes-check / frame clauses on all 2^k messages (symbolic contents, one path), check accepts exactly the codewords on all 2^n words, single-error repair for every position and (16,11,4) double-error rejection for all 120 pairs on symbolic codewords; minimum distance by exact enumeration of the linear map extracted from the real encoder.",
        level_note="Trusted: CPython, pyvc models of bitarray/numpy (cross-checked natively each run), gf2 back end. The codes' (n,k,d) parameters are those the class names / ETSI B.3.1-B.3.5 advertise; the standard's matrices themselves are not available offline, so 'is the ETSI matrix' is not claimed - the statement's clauses are.",
        explanation="Hamming/Golay/QR: contracts on generate/check/check_and_correct, all 2^k messages and all 2^n words as symbolic contents; kernel/image/distance lemmas on the linear maps extracted from the real code",
    ),
}
