"""per-property metadata of the checks (what is assumed / bounded); contracts themselves live in contracts/*.py"""
CONTRACT_MODULES = [
    "contracts.canaries",
    "contracts.fec_block",
    "contracts.crc",
    "contracts.bptc",
    "contracts.trellis",
    "contracts.rs",
    "contracts.vbptc",
    "contracts.pdu_csbk",
]

TRUSTED_BASE = [
    "CPython 3.12 executes the real code objects (control flow, object model, exceptions are not modelled)",
    "pyvc value models of bitarray / numpy / int / bytes / enum (validated differentially against the real libraries and by the native cross-check on every run)",
    "pyvc gf2 canonical forms + Gaussian elimination, bit-parallel enumeration, loop cutter, counter-model extraction",
    "z3 5.1 / cvc5 1.4 where a query reaches them",
]
ASSUMPTIONS = [
    "Python integers are mathematical integers (kept exact by the models; no machine arithmetic in the code under contract)",
    "termination is implied only where exploration terminates on all paths of the shape",
]

PROPS = {
    "C06": dict(
        level_text="Proof for all inputs: systematic / passes-check / frame clauses on all 2^k messages (symbolic contents, one path), check accepts exactly the codewords on all 2^n words, single-error repair for every position and (16,11,4) double-error rejection for all 120 pairs on symbolic codewords; minimum distance by exact enumeration of the linear map extracted from the real encoder.",
        level_note="Trusted: CPython, pyvc models of bitarray/numpy (cross-checked natively each run), gf2 back end. The codes' (n,k,d) parameters are those the class names / ETSI B.3.1-B.3.5 advertise; the standard's matrices themselves are not available offline, so 'is the ETSI matrix' is not claimed - the statement's clauses are.",
        explanation="Hamming/Golay/QR: contracts on generate/check/check_and_correct, all 2^k messages and all 2^n words as symbolic contents; kernel/image/distance lemmas on the linear maps extracted from the real code",
    ),
    "C05": dict(
        level_text="Proof per literal length with fully symbolic contents: the five CRC engines (bit-serial loop cut by its LFSR invariant, table-driven register over the real look-up table) equal the monomial-remainder spec for every length in the tier's set (thorough: every length 0..400, both modes), front ends CRC-8/9/CCITT/32 apply inversion / mask / octet order, check accepts exactly the computed value, leftover register contents do not matter; burst/1-3-bit detection as a rank lemma on the linear map extracted from the real engine.",
        level_note="Quick tier covers lengths 0..33 plus every feed-width residue and the PDU lengths, thorough every length 0..400. Generator polynomials, masks and the CRC-32 octet order are transcribed from knowledge of ETSI TS 102 361-1 B.3.7-B.3.12 (no copy offline) - an assumption. Trusted: CPython, pyvc models, gf2 back end.",
        explanation="contracts on BitCrcRegister._process_bits (loop cut), calculate_checksum, CRC8/9/16/32 front ends vs spec/crc.py",
        assumptions=["ETSI polynomials / masks / CRC-32 word order are transcribed from knowledge of the standard, not from an offline copy"],
    ),
    "C02": dict(
        level_text="Proof for all 2^96 messages: one symbolic run per literal error pattern; round trip with/without repair, every single inverted bit (196) and double errors (quick: the 2730 pairs sharing a matrix row/column or touching R(3); thorough: all 19110 pairs) decode to the message; repair leaves an error-free codeword unaltered in both entry modes; frames.",
        level_note="Trusted: CPython, pyvc models of bitarray/numpy object arrays, gf2 back end. Hamming callees are inlined (affine) and separately under their C06 contracts.",
        explanation="contracts on BPTC19696.encode / deinterleave_data_bits / repair_if_necessary / deinterleave_all_bits",
    ),
    "C10": dict(
        level_text="Proof for all 2^144 blocks: table lemmas (permutation, bijections, 8 distinct points per state), encoder output length and decoder front half on symbolic blocks, the decoder loop cut per iteration with a functional invariant (all 49 iterations, free received point: rejected iff no successor emits it), decode(encode(b)) = b for bits and bytes through the loop's contract.",
        level_note="Trusted: CPython, pyvc finite-function tables (SFun), loop cutter (one `for` rewritten mechanically from the current source each run), enumeration back end.",
        explanation="contracts on all Trellis34 static methods",
    ),
    "C11": dict(
        level_text="Proof: log_multiply equals the GF(2^8) product on all 65536 pairs (symbolic operands, point-wise tables); generate on 9 symbolic octets and a symbolic mask is systematic with zero syndromes at alpha^1..3; check accepts exactly zero-syndrome words (12 free octets, free mask); every 1-3 octet corruption detected by a rank lemma on the parity map extracted from the real generate.",
        level_note="generate/check are verified against log_multiply's contract (stub), which is discharged in the same run. Trusted: CPython, pyvc models, spec/gf256.py (from-scratch carry-less multiply).",
        explanation="contracts on ReedSolomon1294.log_multiply / generate / check",
    ),
}
