#!/usr/bin/env python
"""check driver:  ./check <PROPERTY> [--tier quick|thorough] [--jobs N] [--limit K] [--only <contract substring>]
                 ./check <PROPERTY> --replay <file>

exit 0: every obligation of the property discharged on complete path sets (known findings excepted, each printed)
exit 1: + line `VIOLATION property=<id> replay=<path>`: an obligation is refuted (counter-model replayed on the real code)
exit 2: undecided (solver unknown / out of reach / path budget / target missing)
exit 3: checker defect (engine model and CPython disagree, canary not refuted, crash)
"""
import argparse
import hashlib
import json
import multiprocessing as mp
import os
import re
import subprocess
import sys
import time

HERE = os.path.dirname(os.path.abspath(__file__))
REPO = os.environ.get("PYVC_REPO", "/repo")
sys.path.insert(0, REPO)
sys.path.insert(0, HERE)
os.environ["PYTHONDONTWRITEBYTECODE"] = "1"
sys.dont_write_bytecode = True
NATIVE_PY = "/venv/bin/python"


def load_contracts():
    import importlib
    import props

    for m in props.CONTRACT_MODULES:
        importlib.import_module(m)


def _init():
    import logging

    logging.disable(logging.CRITICAL)
    load_contracts()
    from pyvc import shadows

    shadows.install()
    shadows.rebuild_import_time_objects()


def _job(a):
    """one (contract, shape) job in a forked child of the pool worker: whatever module-level state the code under
    verification leaves behind (caches, edited tables) dies with the job, so every job starts from the state right after import"""
    import pickle

    r, w = os.pipe()
    pid = os.fork()
    if pid == 0:
        os.close(r)
        code = 0
        try:
            data = pickle.dumps(_job_inner(a))
        except BaseException:
            import traceback

            data = pickle.dumps(dict(contract=a[0], shape=a[1], paths=0, clauses={}, refuted=[], undecided=[], exceptions=[], stub_calls={}, pre_false=0, t=0, stats={}, crash=traceback.format_exc()[-1500:]))
        try:
            with os.fdopen(w, "wb") as f:
                f.write(data)
        finally:
            os._exit(code)
    os.close(w)
    with os.fdopen(r, "rb") as f:
        data = f.read()
    os.waitpid(pid, 0)
    if not data:
        return dict(contract=a[0], shape=a[1], paths=0, clauses={}, refuted=[], undecided=[], exceptions=[], stub_calls={}, pre_false=0, t=0, stats={}, crash="job process died without a result")
    return pickle.loads(data)


def _job_indexed(ia):
    return ia[0], _job(ia[1])


def _job_inner(a):
    from pyvc.contract import verify_job
    import signal

    from pyvc.core import JobTimeout as core_JobTimeout

    cname, shape, max_paths, budget = a

    def onalarm(*_):
        raise core_JobTimeout("job budget")

    signal.signal(signal.SIGALRM, onalarm)
    signal.alarm(budget)
    reached = _trace_repo_functions()
    try:
        r = verify_job(cname, shape, max_paths=max_paths)
        r["reached"] = sorted(reached)
        return r
    except (TimeoutError, core_JobTimeout):
        return dict(contract=cname, shape=shape, paths=0, clauses={}, refuted=[], undecided=[f"job budget {budget}s exceeded"], exceptions=[], stub_calls={}, pre_false=0, t=budget, stats={})
    except BaseException as e:  # engine crash inside a worker
        import traceback

        return dict(contract=cname, shape=shape, paths=0, clauses={}, refuted=[], undecided=[], exceptions=[], stub_calls={}, pre_false=0, t=0, stats={}, crash=traceback.format_exc()[-1500:])
    finally:
        signal.alarm(0)


def _trace_repo_functions():
    """which functions of the repository do the symbolic runs actually execute?  (sys.monitoring PY_START, each code object
    reported once: no measurable cost).  Reported in the evidence as `functions_executed_symbolically`; the functions of the
    property's anchor files that NO contract reaches are listed next to it (`anchor_functions_not_reached`)."""
    reached = set()
    mon = getattr(sys, "monitoring", None)
    if mon is None:
        return reached
    root = os.path.realpath(REPO) + "/okdmr/dmrlib/"
    tid = mon.PROFILER_ID
    try:
        mon.use_tool_id(tid, "pyvc-reach")
    except ValueError:
        pass

    def on_start(code, offset):
        fn = code.co_filename
        if fn.startswith(root) and "/tests/" not in fn:
            reached.add(fn[len(root) - len("okdmr/dmrlib/"):] + ":" + code.co_qualname)
        return mon.DISABLE

    mon.register_callback(tid, mon.events.PY_START, on_start)
    mon.set_events(tid, mon.events.PY_START)
    return reached


def anchor_functions(prop):
    """every function / method defined in the property's anchor files (ast, current source) -> {file:qualname}"""
    import ast

    rec = next((json.loads(l) for l in open(os.path.join(HERE, "properties.jsonl")) if json.loads(l)["id"] == prop), None)
    out = set()
    if rec is None:
        return out
    files = []
    for f in rec["anchors"]["files"]:
        p = os.path.join(REPO, f)
        if os.path.isdir(p):
            files += [os.path.join(p, x) for x in sorted(os.listdir(p)) if x.endswith(".py")]
        elif os.path.exists(p):
            files.append(p)
    for p in files:
        try:
            tree = ast.parse(open(p).read())
        except SyntaxError:
            continue
        rel = os.path.relpath(p, REPO)

        def walk(node, prefix):
            for ch in ast.iter_child_nodes(node):
                if isinstance(ch, (ast.FunctionDef, ast.AsyncFunctionDef)):
                    out.add(rel + ":" + prefix + ch.name)
                    walk(ch, prefix + ch.name + ".<locals>.")
                elif isinstance(ch, ast.ClassDef):
                    walk(ch, prefix + ch.name + ".")
                elif not isinstance(ch, (ast.expr, ast.Lambda)):
                    walk(ch, prefix)

        walk(tree, "")
    return out


# ------------------------------------------------------------------------------------------- native side
NATIVE_SNIPPET = r"""
import sys, json, random, logging
sys.dont_write_bytecode = True
repo, here = sys.argv[1], sys.argv[2]
sys.path.insert(0, repo); sys.path.insert(0, here)
logging.disable(logging.CRITICAL)
_out = sys.stdout; sys.stdout = open("/dev/null", "w")  # the library prints while tracking transmissions
import importlib, props
for m in props.CONTRACT_MODULES: importlib.import_module(m)
from pyvc.contract import replay, shape_from_json
import os
out = []
for item in json.load(sys.stdin):
    # each item in a forked child: module-level state left behind by one evaluation must not leak into the next
    rfd, wfd = os.pipe()
    pid = os.fork()
    if pid == 0:
        os.close(rfd)
        rnd = random.Random(item["seed"]) if item.get("seed") is not None else None
        try:
            r = replay(item["contract"], shape_from_json(item["shape"]), item.get("witness") or {}, rnd)
        except BaseException as e:
            import traceback
            r = dict(crash=traceback.format_exc()[-800:], failed=[], checked=[], exception=None, drawn={})
        try:
            with os.fdopen(wfd, "w") as f:
                json.dump(r, f, default=str)
        finally:
            os._exit(0)
    os.close(wfd)
    with os.fdopen(rfd) as f:
        txt = f.read()
    os.waitpid(pid, 0)
    try:
        out.append(json.loads(txt))
    except Exception:
        out.append(dict(crash="native evaluation died without a result", failed=[], checked=[], exception=None, drawn={}))
json.dump(out, _out)
"""


def native_batch(items, jobs=16):
    """run replay items natively (fresh /venv interpreter, no models); returns results in order"""
    if not items:
        return []
    chunks = [items[i::jobs] for i in range(min(jobs, len(items)))]
    procs = []
    for ch in chunks:
        p = subprocess.Popen([NATIVE_PY, "-c", NATIVE_SNIPPET, REPO, HERE], stdin=subprocess.PIPE, stdout=subprocess.PIPE, stderr=subprocess.PIPE, text=True)
        p.stdin.write(json.dumps(ch))
        p.stdin.close()
        procs.append(p)
    res_chunks = []
    for p in procs:
        out = p.stdout.read()
        err = p.stderr.read()
        p.wait()
        try:
            res_chunks.append(json.loads(out))
        except Exception:
            raise RuntimeError("native replay subprocess failed: " + err[-1500:])
    res = [None] * len(items)
    for ci, ch in enumerate(res_chunks):
        for k, r in enumerate(ch):
            res[ci + k * len(chunks)] = r
    return res


def known_match(entry, prop, obligation, shape, witness):
    if entry["property"] != prop:
        return False
    if "obligation_re" in entry:
        if not re.fullmatch(entry["obligation_re"], obligation):
            return False
    elif entry["obligation"] != obligation:
        return False
    for k, v in entry.get("shape", {}).items():
        if shape.get(k) != v:
            return False
    expr = entry.get("when")
    if expr:
        try:
            return bool(eval(expr, {"__builtins__": {"int": int, "len": len, "all": all, "any": any, "bytes": bytes, "range": range, "sum": sum, "bin": bin}}, {"w": witness, "s": shape}))
        except Exception:
            return False
    return True


def base_obligation(REGISTRY, contract, clause):
    """obligation name of the underlying contract for a clause of a pair contract (pyvc/pair.py): known findings are recorded
    under the single-call contract and match the same clause met in a pair"""
    po = getattr(REGISTRY.get(contract), "pair_of", None)
    if po is None:
        return contract + "." + clause
    if clause.startswith("first_call."):
        return po[0] + "." + clause[len("first_call."):]
    if clause.startswith("second_call."):
        return po[1] + "." + clause[len("second_call."):]
    return contract + "." + clause


def slug(s):
    return re.sub(r"[^A-Za-z0-9_.=-]+", "_", s)[:150]


def main():
    ap = argparse.ArgumentParser()
    ap.add_argument("prop")
    ap.add_argument("--tier", default=os.environ.get("VERIF_TIER", "quick"))
    ap.add_argument("--jobs", type=int, default=int(os.environ.get("VERIF_JOBS", "16")))
    ap.add_argument("--limit", type=int, default=0)
    ap.add_argument("--only", default="")
    ap.add_argument("--replay", default="")
    ap.add_argument("--no-evidence", action="store_true")
    a = ap.parse_args()
    seed = int(os.environ.get("VERIF_SEED", "0"))
    import props

    if a.replay:
        return do_replay(a.prop, a.replay)
    t0 = time.time()
    try:
        load_contracts()
    except Exception as e:
        import traceback

        traceback.print_exc()
        print(f"UNDECIDED property={a.prop}: contract modules do not import against this tree ({type(e).__name__}: {e})")
        return 2
    from pyvc.contract import REGISTRY, STUBS

    meta = props.PROPS.get(a.prop, {})
    # contracts of the property + (transitively) the contracts that discharge the stubs they rely on + canaries
    names = [n for n, fn in REGISTRY.items() if a.prop in fn.properties]
    todo = list(names)
    while todo:
        n = todo.pop()
        for s in REGISTRY[n].stubs:
            for prov in STUBS[s]["provided_by"]:
                if prov not in names:
                    names.append(prov)
                    todo.append(prov)
    names += [n for n, fn in REGISTRY.items() if fn.canary and n not in names and (fn.properties == ["*"] or a.prop in fn.properties)]
    if a.only:
        names = [n for n in names if a.only in n]
    jobs = []
    shape_count = {}
    for n in names:
        fn = REGISTRY[n]
        if fn.bounded:
            continue
        provider_only = a.prop not in fn.properties and not fn.canary
        # a contract that is here only because a stub relies on it runs the shapes the stub needs (if it says which)
        shapes = list(fn.stub_shapes(a.tier)) if provider_only and hasattr(fn, "stub_shapes") else list(fn.shapes(a.tier))
        shape_count[n] = len(shapes)
        # job budgets: the contract's own, else by family size - a family of many small shapes (one error pattern, one burst
        # position each) gets a short budget per shape, so that a change which makes every shape explode cannot take hours
        many = len(shapes) >= 200
        for s in shapes:
            jobs.append((n, s, getattr(fn, "max_paths", 3000 if many else 20000), getattr(fn, "budget_s", 120 if many else 600)))
    if a.limit:
        jobs = jobs[: a.limit]
    # longest first would need a cost model; interleave contracts so that slow families spread over the pool
    jobs.sort(key=lambda j: -getattr(REGISTRY[j[0]], "cost", 1))
    # whole-check budget: results that are in by then stand (refutations included), the rest of the jobs is undecided.
    # Large families run in two phases: up to 16 probe shapes spread over the family first; if most of the probes run out of
    # their budget (a change made every shape explode) the remaining shapes are not started - what the probes refuted stands.
    deadline = t0 + float(os.environ.get("VERIF_MAX_WALL", "1800" if a.tier == "quick" else "36000"))
    res = [None] * len(jobs)
    by_contract = {}
    for i, j in enumerate(jobs):
        by_contract.setdefault(j[0], []).append(i)
    probes, later = [], []
    for n, idx in by_contract.items():
        if len(idx) <= 32:
            probes += idx
        else:
            pick = sorted({round(k * (len(idx) - 1) / 15) for k in range(16)})
            probes += [idx[k] for k in pick]
            later += [i for k, i in enumerate(idx) if k not in set(pick)]

    def run_phase(indices):
        if not indices:
            return
        pool = mp.get_context("fork").Pool(a.jobs, initializer=_init)
        try:
            it = pool.imap_unordered(_job_indexed, [(i, jobs[i]) for i in indices], chunksize=1)
            for _ in range(len(indices)):
                try:
                    i, r = it.next(timeout=max(1.0, deadline - time.time()))
                except mp.TimeoutError:
                    break
                res[i] = r
        finally:
            pool.terminate()
            pool.join()

    run_phase(probes)
    skipped_families = []
    for n, idx in by_contract.items():
        pr = [res[i] for i in idx if i in set(probes) and res[i] is not None]
        if len(idx) > 32 and pr and sum(1 for r in pr if any("budget" in str(u) for u in r["undecided"])) * 2 >= len(pr):
            skipped_families.append(n)
    later = [i for i in later if jobs[i][0] not in skipped_families]
    # fail fast: a refutation of the probe phase that replays natively and is not a listed known finding decides the check
    # (exit 1); the remaining shapes would only add further instances of it
    early = False
    if later:
        kf0 = json.load(open(os.path.join(HERE, "known_findings.json"))).get("known", [])
        cands = []
        for r in res:
            if r is None or REGISTRY[r["contract"]].canary:
                continue
            for x in r["refuted"][:2]:
                cands.append(dict(contract=r["contract"], shape=r["shape"], clause=x["clause"], witness=x["witness"]))
            for e in r["exceptions"][:1]:
                cands.append(dict(contract=r["contract"], shape=r["shape"], clause="no-exception", witness=e["witness"]))
        seen_c, pick_c = {}, []
        for c in cands:
            k = (c["contract"], c["clause"])
            seen_c[k] = seen_c.get(k, 0) + 1
            if seen_c[k] <= 3 and len(pick_c) < 48:
                pick_c.append(c)
        if pick_c:
            for c, rr in zip(pick_c, native_batch([dict(contract=c["contract"], shape=c["shape"], witness=c["witness"]) for c in pick_c], a.jobs)):
                raised = bool(rr.get("exception")) and rr["exception"] != "precondition false"
                ok = raised if c["clause"] == "no-exception" else (c["clause"] in rr.get("failed", []))
                if not ok:
                    continue
                obl = base_obligation(REGISTRY, c["contract"], c["clause"])
                props_c = REGISTRY[c["contract"]].properties
                if not any(known_match(e, e["property"], obl, c["shape"], c["witness"] or {}) and e["property"] in props_c for e in kf0):
                    early = True
                    break
    if early:
        for i in later:
            res[i] = dict(contract=jobs[i][0], shape=jobs[i][1], paths=0, clauses={}, refuted=[], undecided=["not started: a violation found by the probe shapes was already confirmed natively"], exceptions=[], stub_calls={}, pre_false=0, t=0, stats={})
    else:
        run_phase(later)
    for n in skipped_families:
        for i in by_contract[n]:
            if res[i] is None:
                res[i] = dict(contract=jobs[i][0], shape=jobs[i][1], paths=0, clauses={}, refuted=[], undecided=["not started: most probe shapes of this family ran out of their budget"], exceptions=[], stub_calls={}, pre_false=0, t=0, stats={})
    for i, r in enumerate(res):
        if r is None:
            res[i] = dict(contract=jobs[i][0], shape=jobs[i][1], paths=0, clauses={}, refuted=[], undecided=["check budget exceeded before this job finished"], exceptions=[], stub_calls={}, pre_false=0, t=0, stats={})
    t_sym = time.time() - t0

    agg = {}  # obligation -> stats
    refuted, undec, crashes, unexpected = [], [], [], []
    paths = 0
    stub_calls = {}
    per_contract = {}
    reached = set()
    for r in res:
        if REGISTRY[r["contract"]].canary:
            continue
        reached.update(x for x in r.get("reached", []) if not x.endswith((":<module>", ":<lambda>", ":<listcomp>", ":<genexpr>", ":<dictcomp>")))
    for r in res:
        paths += r["paths"]
        pc = per_contract.setdefault(r["contract"], dict(shapes=0, paths=0, proved_instances=0, pre_false=0, seconds=0.0))
        pc["shapes"] += 1
        pc["paths"] += r["paths"]
        pc["pre_false"] += r.get("pre_false", 0)
        pc["seconds"] += r["t"]
        if r.get("crash"):
            crashes.append((r["contract"], r["shape"], r["crash"]))
        for n, k in r.get("stub_calls", {}).items():
            stub_calls[n] = stub_calls.get(n, 0) + k
        for c, d in r["clauses"].items():
            k = r["contract"] + "." + c
            g = agg.setdefault(k, dict(instances=0, by_backend={}, seconds=0.0))
            g["instances"] += d["instances"]
            g["seconds"] += d["seconds"]
            for b, n in d["by_backend"].items():
                g["by_backend"][b] = g["by_backend"].get(b, 0) + n
                if b not in ("REFUTED", "UNDECIDED"):
                    pc["proved_instances"] += n
        for x in r["refuted"]:
            refuted.append(dict(contract=r["contract"], shape=r["shape"], clause=x["clause"], witness=x["witness"]))
        for u in r["undecided"]:
            undec.append((r["contract"], r["shape"], u))
        for e in r["exceptions"]:
            # an exception the contract text does not allow, on a feasible path: obligation <contract>.no-exception
            k = r["contract"] + ".no-exception"
            g = agg.setdefault(k, dict(instances=0, by_backend={}, seconds=0.0))
            g["instances"] += 1
            g["by_backend"]["REFUTED"] = g["by_backend"].get("REFUTED", 0) + 1
            unexpected.append(dict(contract=r["contract"], shape=r["shape"], clause="no-exception", witness=e["witness"], exc=e))
    # every contract explored without an escaping exception discharges its implicit no-exception obligation
    for n in names:
        if REGISTRY[n].bounded:
            continue
        k = n + ".no-exception"
        if k not in agg and n in per_contract:
            agg[k] = dict(instances=per_contract[n]["paths"], by_backend={"explore": per_contract[n]["paths"]}, seconds=0.0)

    # ---------------- native replay of every refutation (fresh interpreter, real code, no models)
    # (canaries first; at most PER_OBLIGATION replays per failed obligation - a broken callee refutes thousands of paths)
    cand = refuted + unexpected
    PER_OBLIGATION, MAXREPLAY = 60, 3000
    seen_ob = {}
    first, rest = [], []
    for x in cand:
        k = (x["contract"], x["clause"])
        seen_ob[k] = seen_ob.get(k, 0) + 1
        (first if seen_ob[k] <= PER_OBLIGATION or REGISTRY[x["contract"]].canary else rest).append(x)
    first.sort(key=lambda x: not REGISTRY[x["contract"]].canary)
    cand = first[:MAXREPLAY] + first[MAXREPLAY:] + rest
    MAXREPLAY = min(MAXREPLAY, len(first))
    items = [dict(contract=x["contract"], shape=x["shape"], witness=x["witness"]) for x in cand[:MAXREPLAY]]
    t1 = time.time()
    rep = native_batch(items, a.jobs)
    engine_disagreements = []
    for x, r in zip(cand, rep):
        x["replay"] = r
        raised = bool(r.get("exception")) and r["exception"] != "precondition false"
        if x["clause"] == "no-exception":
            x["confirmed"] = raised
        elif x["clause"] in r.get("failed", []) or (raised and x["clause"] not in r.get("checked", [])):
            x["confirmed"] = True
        elif x["clause"].startswith("call[") and ".pre." in x["clause"] and not r.get("crash") and not r.get("failed") and not raised:
            # a callee contract's call-site precondition could not be established, and the same input run natively (real
            # callee, no contract) satisfies every clause: the callee contract is not usable on this path - that is an
            # inability to prove, not a violation of the property
            x["confirmed"] = None
            undec.append((x["contract"], x["shape"], "call-site precondition of a callee contract not established (native run of the counter-model is clean): " + x["clause"]))
        elif x["clause"] not in r.get("checked", []) and not r.get("crash"):
            # a structural obligation of the symbolic run (loop cut point, stub call-site precondition, extracted-map
            # lemma) that the native text does not evaluate: the refutation stands, but there is no failing input
            x["confirmed"] = "no-input"
        elif isinstance(x["witness"], dict) and x["witness"].get("__havoc__"):
            # the path went through an over-approximating callee contract: the counter-model may be spurious
            x["confirmed"] = None
            undec.append((x["contract"], x["shape"], "refutation through an over-approximating stub does not replay: " + x["clause"]))
        else:
            x["confirmed"] = False
        if x["confirmed"] is False:
            engine_disagreements.append(x)
    for x in cand[MAXREPLAY:]:
        x["replay"] = None
        x["confirmed"] = "not-replayed"  # beyond the per-obligation cap; siblings of the same obligation were replayed

    # ---------------- CPython cross-check / bounded stand-in: the same contract text natively on random contents
    rnd_items = []
    nrand = meta.get("native_random", 40 if a.tier == "quick" else 400)
    import random as _r

    R = _r.Random(seed)
    for n in names:
        fn = REGISTRY[n]
        if fn.canary:
            continue
        shapes = list(fn.shapes(a.tier))
        if not shapes:
            continue
        k = getattr(fn, "native_random", nrand)
        every = getattr(fn, "native_all", False)  # bounded enumerations: each shape once, not a random draw
        for i in range(len(shapes) if every else k):
            s = shapes[i] if every else shapes[R.randrange(len(shapes))]
            rnd_items.append(dict(contract=n, shape={kk: (list(v) if isinstance(v, tuple) else v) for kk, v in s.items()}, witness={}, seed=R.getrandbits(32)))
    # fallback for (contract, shape) jobs that fell out of the engine's reach: the same shape natively, random contents
    seen_fb = set()
    for (cn, sh, why) in undec:
        key = (cn, json.dumps(sh, sort_keys=True, default=str))
        if key in seen_fb or len(seen_fb) >= 2000:
            continue
        seen_fb.add(key)
        for i in range(3 if len(undec) > 50 else 12):
            rnd_items.append(dict(contract=cn, shape=sh, witness={}, seed=R.getrandbits(32), fallback=True))
    rnd_res = native_batch(rnd_items, a.jobs)
    t_native = time.time() - t1
    native_fail = []
    native_evals = 0
    native_by_contract = {}
    refuted_obl = {x["contract"] + "." + x["clause"] for x in cand}
    jobidx = {(r["contract"], json.dumps(r["shape"], sort_keys=True, default=str)): r for r in res}
    for it, r in zip(rnd_items, rnd_res):
        if r.get("crash"):
            crashes.append((it["contract"], it["shape"], r["crash"]))
            continue
        if r["exception"] == "precondition false":
            continue
        native_evals += 1
        native_by_contract[it["contract"]] = native_by_contract.get(it["contract"], 0) + 1
        bad = list(r["failed"])
        if r["exception"]:
            bad.append("no-exception")
        for cl in bad:
            native_fail.append(dict(contract=it["contract"], shape=it["shape"], clause=cl, witness=r["drawn"], replay=r, confirmed=True, native_only=True))

    # a native failure of an obligation that the symbolic engine discharged = engine unsound (bounded contracts: plain finding)
    unsound = []
    extra_viol = []
    for nf in native_fail:
        k = nf["contract"] + "." + nf["clause"]
        if REGISTRY[nf["contract"]].bounded:
            extra_viol.append(nf)
            g = agg.setdefault(k, dict(instances=0, by_backend={}, seconds=0.0, bounded=True))
            g["instances"] += 1
            g["by_backend"]["REFUTED"] = g["by_backend"].get("REFUTED", 0) + 1
        elif k in refuted_obl:
            extra_viol.append(nf)  # consistent with the symbolic verdict; another witness
        else:
            jr = jobidx.get((nf["contract"], json.dumps(nf["shape"], sort_keys=True, default=str)))
            broken_callee = any(any(x2["contract"] == prov for x2 in cand) for st in REGISTRY[nf["contract"]].stubs for prov in STUBS[st]["provided_by"])
            # (a loop-cut contract discharges its post phase UNDER the invariant: a refuted invariant obligation of the same
            # contract explains a native failure of the post clause)
            broken_callee = broken_callee or any(x2["contract"] == nf["contract"] and x2["confirmed"] is not False for x2 in cand)
            clean = not broken_callee and jr is not None and not jr["refuted"] and not jr["undecided"] and not jr["exceptions"] and not jr.get("crash") and (nf["clause"] == "no-exception" or nf["clause"] in jr["clauses"])
            if clean:
                unsound.append(nf)  # the symbolic run discharged exactly this clause on exactly this shape
            else:
                extra_viol.append(nf)  # the symbolic run of this shape did not get that far: a native-only witness
    for n in names:
        if REGISTRY[n].bounded:
            for r_it, r in zip(rnd_items, rnd_res):
                if r_it["contract"] == n and not r.get("crash") and r["exception"] != "precondition false":
                    for cl in r["checked"]:
                        g = agg.setdefault(n + "." + cl, dict(instances=0, by_backend={}, seconds=0.0, bounded=True))
                        g["instances"] += 1
                        if cl not in r["failed"]:
                            g["by_backend"]["native"] = g["by_backend"].get("native", 0) + 1

    # ---------------- verdicts
    kf = json.load(open(os.path.join(HERE, "known_findings.json")))
    known_hit = {}
    violations = []
    for x in cand + extra_viol:
        if REGISTRY[x["contract"]].canary:
            continue
        obl = base_obligation(REGISTRY, x["contract"], x["clause"])
        if x["confirmed"] is False or x["confirmed"] is None:
            continue  # engine disagreement / not replayable, handled elsewhere
        ent = next((e for e in kf.get("known", []) if known_match(e, a.prop if a.prop in REGISTRY[x["contract"]].properties else REGISTRY[x["contract"]].properties[0], obl, x["shape"], x["witness"] or {})), None)
        if ent is None:  # a finding recorded under another property that shares the contract
            ent = next((e for e in kf.get("known", []) if known_match(e, e["property"], obl, x["shape"], x["witness"] or {}) and e["property"] in REGISTRY[x["contract"]].properties), None)
        if ent is not None:
            known_hit.setdefault(ent["id"], dict(entry=ent, n=0))["n"] += 1
        else:
            violations.append(x)
    # canaries must be refuted and confirmed
    canary_bad = []
    canaries = [n for n in names if REGISTRY[n].canary]
    for n in canaries:
        hit = [x for x in cand if x["contract"] == n and x["confirmed"] is True]
        if not hit:
            canary_bad.append(n)
    # vacuity guards
    vacuous = []
    for n in names:
        fn = REGISTRY[n]
        if fn.bounded or a.limit or a.only:
            continue
        pc = per_contract.get(n)
        if not pc or pc["paths"] == 0 and not any(u[0] == n for u in undec):
            vacuous.append(f"{n}: no path explored")
        elif not any(k.startswith(n + ".") and not k.endswith(".no-exception") for k in agg) and not any(u[0] == n for u in undec) and not any(x['contract'] == n for x in unexpected):
            vacuous.append(f"{n}: no obligation reached")
    stub_unused = []
    for n in names:
        for s in REGISTRY[n].stubs:
            if stub_calls.get(s, 0) == 0 and not a.limit and not a.only and not any(u[0] == n for u in undec) and not any(x["contract"] == n for x in cand):
                stub_unused.append(f"{n}: stub {s} never evaluated")

    obligations = {k: g for k, g in agg.items() if not any(k.startswith(c + ".") for c in canaries)}
    n_obl = len(obligations)
    undec_obl = {u[0] for u in undec}
    discharged = 0
    bounded_obl = 0
    for k, g in obligations.items():
        cn = k.rsplit(".", 1)[0]
        cn = next((n for n in names if k.startswith(n + ".")), cn)
        if g.get("bounded") or REGISTRY.get(cn) is not None and REGISTRY[cn].bounded:
            bounded_obl += 1
            continue
        if g["by_backend"].get("REFUTED") or g["by_backend"].get("UNDECIDED") or cn in undec_obl:
            continue
        discharged += 1
    known_obl = set()
    for x in cand + extra_viol:
        obl = x["contract"] + "." + x["clause"]
        if obl in obligations and not any((y["contract"] + "." + y["clause"]) == obl for y in violations):
            if x.get("confirmed") is not False and not REGISTRY[x["contract"]].canary:
                known_obl.add(obl)
    proof_obl = n_obl - bounded_obl - len([o for o in known_obl if not obligations[o].get("bounded")])

    wall = time.time() - t0
    # ---------------- replay files + output lines
    rdir = os.path.join(HERE, "replays", a.prop)
    os.makedirs(rdir, exist_ok=True)
    lines = []
    seen_obl = {}
    for x in violations:
        obl = x["contract"] + "." + x["clause"]
        seen_obl.setdefault(obl, []).append(x)
    viol_files = []
    for obl, xs in seen_obl.items():
        x = next((y for y in xs if y["confirmed"] is True), xs[0])
        path = os.path.join(rdir, slug(obl) + ".json")
        doc = dict(property=a.prop, obligation=obl, contract=x["contract"], target=REGISTRY[x["contract"]].target, shape=x["shape"], witness=x["witness"],
                   native_replay=x["replay"], refuted_instances=len(xs), other_shapes=[y["shape"] for y in xs[1:6]],
                   verifier_output=dict(exc=x.get("exc"), confirmed_natively=x["confirmed"], note=(x["witness"] or {}).get("__note__") if isinstance(x["witness"], dict) else None),
                   rerun=f"cd {HERE} && ./check {a.prop} --replay {os.path.relpath(path, HERE)}")
        json.dump(doc, open(path, "w"), indent=1, default=str)
        viol_files.append(path)
        x = next((y for y in xs if y["confirmed"] is True), xs[0])
        lines.append(f"VIOLATION property={a.prop} replay={path}" + ("" if x["confirmed"] is True else " no-failing-input-found"))
    for kid, h in known_hit.items():
        lines.append(f"KNOWN-FINDING: property={a.prop} {h['entry'].get('obligation') or h['entry'].get('obligation_re')} [{kid}] {h['entry']['what']} ({h['n']} refuted instance(s) match)")

    # ---------------- report
    print(f"{a.prop} {a.tier}: contracts {len(names)} shapes {len(jobs)} paths {paths} obligations {n_obl} (proof {proof_obl}, discharged {discharged}; bounded {bounded_obl}) "
          f"symbolic {t_sym:.1f}s native {t_native:.1f}s wall {wall:.1f}s")
    for k, g in sorted(agg.items()):
        print("  ", k, g["instances"], g["by_backend"], f"{g['seconds']:.2f}s")
    print(f"refuted instances: {len(refuted)} unexpected exceptions: {len(unexpected)} undecided: {len(undec)} native random evaluations: {native_evals} (failures {len(native_fail)})")
    for u in undec[:8]:
        print("  UNDECIDED", u)
    for c in crashes[:3]:
        print("  CRASH", c[0], c[1], c[2][-600:])
    for x in engine_disagreements[:5]:
        print("  ENGINE-DISAGREEMENT (model refuted, CPython does not confirm):", x["contract"], x["clause"], x["shape"], x["witness"], x["replay"])
    for x in unsound[:5]:
        print("  ENGINE-UNSOUND (discharged symbolically, fails natively):", x["contract"], x["clause"], x["shape"], x["witness"], x["replay"].get("exception"))
    for v in vacuous + stub_unused + [f"canary {c} was not refuted" for c in canary_bad]:
        print("  VACUITY", v)
    for ln in lines:
        print(ln)

    rc = 0
    if violations:
        rc = 1
    elif crashes or engine_disagreements or unsound or canary_bad or vacuous or stub_unused:
        rc = 3
    elif undec or any(x["confirmed"] is None for x in cand):
        rc = 2
    if rc == 2:
        print(f"UNDECIDED property={a.prop}")
    if rc == 3:
        print(f"CHECKER-DEFECT property={a.prop}")

    if not a.no_evidence and not a.limit and not a.only:
        functions = sorted({REGISTRY[n].target for n in names if not REGISTRY[n].canary})
        samples = []
        for k, g in sorted(obligations.items()):
            samples.append(dict(obligation=k, instances=g["instances"], by_backend=g["by_backend"], solver_s=round(g["seconds"], 3)))
        by_backend = {}
        solver_s = 0.0
        for g in obligations.values():
            solver_s += g["seconds"]
            for b, n in g["by_backend"].items():
                by_backend[b] = by_backend.get(b, 0) + n
        src_hash = hashlib.sha256()
        for t in functions:
            f = os.path.join(REPO, t.split(":")[0].replace(".", "/") + ".py")
            if os.path.exists(f):
                src_hash.update(open(f, "rb").read())
        ev = dict(
            property_id=a.prop, tier=a.tier, seed=seed, level="proof",
            coverage=dict(
                obligations=proof_obl, discharged=discharged,
                checker_cmd=f"./check {a.prop} --tier {a.tier}",
                trusted_base=props.TRUSTED_BASE + meta.get("trusted", []),
                explanation=meta.get("explanation", ""),
                functions_under_contract=functions,
                # (a contract names ONE target; the functions it reaches and proves clauses about are listed per contract file)
                functions_under_contract_per_contract_file={m: (sys.modules[m].__doc__ or "").strip() for m in sorted({REGISTRY[n].__module__ for n in names if not REGISTRY[n].canary})},
                functions_executed_symbolically=dict(
                    what="functions of okdmr/dmrlib whose real code objects were executed on symbolic values by the proof contracts of this run (sys.monitoring PY_START); bounded contracts run natively and are not counted",
                    count=len(reached), functions=sorted(reached)),
                anchor_functions_not_reached=dict(
                    what="functions defined in the property's anchor files that no proof contract of this run executed: nothing is proved about them (repr / debug / CLI helpers, code only bounded contracts reach, or code outside the property)",
                    functions=sorted(anchor_functions(a.prop) - reached)),
                contracts={n: dict(target=REGISTRY[n].target, stubs=REGISTRY[n].stubs, **per_contract.get(n, {})) for n in names if not REGISTRY[n].canary},
                shapes=len(jobs), paths=paths, instances_by_backend=by_backend, solver_s=round(solver_s, 3),
                stub_evaluations=stub_calls,
                refuted_instances=len(refuted) + len(unexpected), undecided=len(undec),
                known_findings_matched={k: h["n"] for k, h in known_hit.items()},
                obligations_refuted_and_listed_as_known_findings=sorted(known_obl),
                canaries=dict(run=len(canaries), refuted_and_replayed=len(canaries) - len(canary_bad)),
                native_crosscheck=dict(what="the same contract text evaluated natively (fresh CPython, real code, no models) on random contents", evaluations=native_evals, by_contract=native_by_contract, failures=len(native_fail), disagreements_with_symbolic_verdict=len(unsound) + len(engine_disagreements)),
                bounded_parts=meta.get("bounded_parts", []),
                bounded_obligations=bounded_obl,
                source_sha256_of_target_files=src_hash.hexdigest(),
                samples=samples[:60],
            ),
            assumptions=props.ASSUMPTIONS + meta.get("assumptions", []),
            wall_s=round(wall, 2), violations=len(seen_obl),
        )
        os.makedirs(os.path.join(HERE, "evidence"), exist_ok=True)
        with open(os.path.join(HERE, "evidence", a.prop + ".json"), "w") as f:
            json.dump(ev, f, indent=1, default=str)
    return rc


def do_replay(prop, path):
    doc = json.load(open(path if os.path.isabs(path) else os.path.join(HERE, path)))
    r = native_batch([dict(contract=doc["contract"], shape=doc["shape"], witness=doc["witness"])], 1)[0]
    print(json.dumps(dict(obligation=doc["obligation"], shape=doc["shape"], witness=doc["witness"], native=r), indent=1))
    clause = doc["obligation"][len(doc["contract"]) + 1:]
    bad = clause in r["failed"] or (r["exception"] and r["exception"] != "precondition false")
    if bad:
        print(f"VIOLATION property={prop} replay={path}")
        return 1
    print("replay does not fail on this tree")
    return 0


if __name__ == "__main__":
    sys.exit(main())
