"""GF(2^8) modulo x^8+x^4+x^3+x^2+1, written from scratch (no tables)"""


def mul(a, b):
    r = 0
    for i in range(8):
        if (b >> i) & 1:
            r ^= a << i
    for i in range(14, 7, -1):
        if (r >> i) & 1:
            r ^= 0x11D << (i - 8)
    return r


def power(a, e):
    r = 1
    for _ in range(e):
        r = mul(r, a)
    return r


def mul_const_bits(c, xbits):
    """constant c times a byte given as 8 bit values LSB first -> 8 bit values LSB first (GF(2)-linear map)"""
    out = [0] * 8
    for i in range(8):
        img = mul(c, 1 << i)
        for b in range(8):
            if (img >> b) & 1:
                out[b] = xbits[i] ^ out[b]
    return out
