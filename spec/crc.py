"""Independent CRC specification: remainder of m(x) * x^w modulo g(x), defined on monomials by schoolbook division on
Python ints - no shift register, no table.  ETSI TS 102 361-1 annex B.3.7 - B.3.12 parameters (see DESIGN.md C05 for
provenance: the standard is not available offline; polynomials / masks are written down from knowledge of the standard)."""


def monomial_remainder(e, g, w):
    """x^e mod (x^w + g) as an int (g given without its leading term)"""
    full = g | (1 << w)
    v = 1 << e
    while v.bit_length() > w:
        v ^= full << (v.bit_length() - 1 - w)
    return v


def poly_remainder_bits(bits, g, w):
    """bits: list of bit values (0/1 or symbolic), first bit = highest power -> list of w bit values, MSB first"""
    n = len(bits)
    out = [0] * w
    for i, b in enumerate(bits):
        r = monomial_remainder(w + n - 1 - i, g, w)
        for j in range(w):
            if (r >> (w - 1 - j)) & 1:
                out[j] = b ^ out[j]
    return out


def lfsr(reg, chunk, g, w):
    """register after shifting `chunk` in, MSB first: reg' = (reg * x^len + chunk * x^w) mod g.  Used as the loop
    invariant of the bit-serial register and as the definition of the look-up table; itself checked against
    poly_remainder_bits by the contract `spec.lfsr_is_remainder`."""
    reg = list(reg)
    for d in chunk:
        fb = reg[0] ^ d
        reg = reg[1:] + [0]
        reg = [(x ^ fb) if ((g >> (w - 1 - i)) & 1) else x for i, x in enumerate(reg)]
    return reg


def byteswap16(octets):
    """B.3.9: the CRC-32 is computed over the data taken as 16-bit words, least significant octet first; a trailing odd
    octet stays in place"""
    o = list(octets)
    for i in range(0, len(o) - 1, 2):
        o[i], o[i + 1] = o[i + 1], o[i]
    return o


ETSI = {  # name -> (generator polynomial without leading term, width)
    "Crc7": (0x27, 7),  # x^7 + x^5 + x^2 + x + 1
    "Crc8": (0x07, 8),  # x^8 + x^2 + x + 1
    "Crc9": (0x059, 9),  # x^9 + x^6 + x^4 + x^3 + 1
    "Crc16": (0x1021, 16),  # CRC-CCITT x^16 + x^12 + x^5 + 1
    "Crc32": (0x04C11DB7, 32),
}
MASKS = {  # B.3.12 data type CRC masks
    "PiHeader": 0x6969, "VoiceLCHeader": 0x969696, "TerminatorWithLC": 0x999999, "CSBK": 0xA5A5, "MBCHeader": 0xAAAA,
    "DataHeader": 0xCCCC, "UnifiedSingleBlockData": 0x3333, "Rate12DataContinuation": 0x0F0,
    "Rate34DataContinuation": 0x1FF, "Rate1DataContinuation": 0x10F, "ReverseChannel": 0x7A,
}
