"""independent CRC specification: remainder of m(x)*x^w modulo g, defined on monomials (no shift register)"""


def monomial_remainder(e, g, w):
    """x^e mod (x^w + g) as an int (g without the leading term)"""
    full = g | (1 << w)
    v = 1 << e
    while v.bit_length() > w:
        v ^= full << (v.bit_length() - 1 - w)
    return v


def poly_remainder_bits(bits, g, w):
    """bits: list of bit values (0/1 or symbolic), MSB first -> list of w bit values, MSB first"""
    n = len(bits)
    out = [0] * w
    for i, b in enumerate(bits):
        r = monomial_remainder(w + n - 1 - i, g, w)
        for j in range(w):
            if (r >> (w - 1 - j)) & 1:
                out[j] = b ^ out[j]
    return out


def lfsr(reg, chunk, g, w):
    """bit-serial register update, MSB first (used only as loop invariant / table definition)"""
    reg = list(reg)
    for d in chunk:
        fb = reg[0] ^ d
        reg = reg[1:] + [0]
        reg = [(x ^ fb) if ((g >> (w - 1 - i)) & 1) else x for i, x in enumerate(reg)]
    return reg


ETSI = {  # ETSI TS 102 361-1 B.3.7 - B.3.10 (+ 7-bit CRC of B.3.13); see DESIGN.md C05 for provenance
    "Crc7": (0x27, 7),
    "Crc8": (0x07, 8),
    "Crc9": (0x059, 9),
    "Crc16": (0x1021, 16),
    "Crc32": (0x04C11DB7, 32),
}
MASKS = {  # table B.21
    "PiHeader": 0x6969, "VoiceLCHeader": 0x969696, "TerminatorWithLC": 0x999999, "CSBK": 0xA5A5, "MBCHeader": 0xAAAA,
    "DataHeader": 0xCCCC, "UnifiedSingleBlockData": 0x3333, "Rate12DataContinuation": 0x0F0,
    "Rate34DataContinuation": 0x1FF, "Rate1DataContinuation": 0x10F, "ReverseChannel": 0x7A,
}
