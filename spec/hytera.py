"""independent transcriptions of the two Hytera checksums (written from the protocol description, not from the code) and
a ripple-carry adder over bit lists for stating 'sum modulo 2^w' bit-precisely; polymorphic: ints or engine proxies"""


def hdap_checksum(data):
    """HDAP: the octet c with  c + sum(opcode .. payload) = 0x32  (mod 256)"""
    return (0x32 - sum(data)) % 256


def ones_complement16(data):
    """HRNP: 16-bit ones-complement of the ones-complement sum of the big-endian 16-bit words of data (zero padded)"""
    data = bytes(data)
    if len(data) % 2:
        data += b"\x00"
    s = sum(256 * data[i] + data[i + 1] for i in range(0, len(data), 2))
    return 0xFFFF - fold16(s)


def fold16(s):
    """end-around-carry reduction of a natural number to 16 bits: the value congruent to s modulo 65535 in 1..65535,
    0 only for 0"""
    return 0 if s == 0 else (s - 1) % 0xFFFF + 1


def add_bits(a, b):
    """LSB-first bit lists of equal width: (a + b) mod 2^w as a bit list (ripple carry)"""
    out, c = [], 0
    for x, y in zip(a, b):
        out.append(x ^ y ^ c)
        c = (x & y) ^ (c & (x ^ y))
    return out
