#!/bin/bash
# all 20 quick checks against each benign refactoring tree; output ${1:-/tmp/benign_sweep.txt}
out=${1:-/tmp/benign_sweep.txt}; : > $out
for R in A B C D; do
  WT=/tmp/wtben_$R
  git -C /repo worktree add --detach -q $WT HEAD || { echo "worktree fail $R" >> $out; continue; }
  (cd $WT && git apply /verif/benign/refactor-$R/patch.diff) || { echo "apply fail $R" >> $out; }
  for i in 01 02 03 04 05 06 07 08 09 10 11 12 13 14 15 16 17 18 19 20; do
    s=$(date +%s); PYVC_REPO=$WT /verif/check C$i --no-evidence > /tmp/ben_${R}_C$i.log 2>&1; rc=$?
    echo "refactor-$R C$i exit=$rc $(( $(date +%s)-s ))s $(grep -cE '^VIOLATION' /tmp/ben_${R}_C$i.log) violations" >> $out
  done
  git -C /repo worktree remove --force $WT
done
echo DONE >> $out
