"""debug helper: run ONE (contract, shape) job in-process with a wall-clock limit:  tools/one.py <contract> '<shape json>' [seconds] [max_paths]"""
import sys, os, json, time, signal, logging
HERE = os.path.dirname(os.path.dirname(os.path.abspath(__file__)))
sys.path.insert(0, os.environ.get("PYVC_REPO", "/repo")); sys.path.insert(0, HERE)
logging.disable(logging.CRITICAL)
import importlib, props
for m in props.CONTRACT_MODULES: importlib.import_module(m)
from pyvc import shadows, core
from pyvc.contract import verify_job, shape_from_json
shadows.install(); shadows.rebuild_import_time_objects()
def handler(*a): raise KeyboardInterrupt
signal.signal(signal.SIGALRM, handler); signal.alarm(int(sys.argv[3]) if len(sys.argv) > 3 else 30)
t = time.time()
try:
    r = verify_job(sys.argv[1], shape_from_json(json.loads(sys.argv[2])), max_paths=int(sys.argv[4]) if len(sys.argv) > 4 else 20000)
    r.pop("stats", None)
    print(json.dumps({k: r[k] for k in ("paths", "clauses", "undecided", "exceptions", "pre_false")}, indent=0, default=str)[:6000])
    print("refuted:", [(x["clause"], x["witness"]) for x in r["refuted"][:6]], len(r["refuted"]))
except KeyboardInterrupt:
    import traceback; traceback.print_exc(limit=14)
print("%.1fs" % (time.time() - t), core.C.stats)
