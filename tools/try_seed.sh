#!/bin/bash
# apply a seeded change to /repo, run the quick check of the property, undo the change straight afterwards
# usage: tools/try_seed.sh <seeded dir name> [PROP ...]
S=/verif/seeded/$1; shift
P=${@:-$(python3 -c "import json;print(json.load(open('$S/meta.json'))['property'])")}
[ -z "$(git -C /repo status --porcelain)" ] || { echo "/repo not clean"; exit 2; }
git -C /repo apply $S/patch.diff || exit 2
for p in $P; do /verif/check $p --no-evidence 2>&1 | grep -E "^(VIOLATION|KNOWN|UNDECIDED|CHECKER|C[0-9]+ )|REFUTED|ENGINE|VACUITY"; echo "exit=${PIPESTATUS[0]}"; done
git -C /repo checkout -- .
git -C /repo status --short
