"""oracle for C19: answers 'what does this call return in a pristine interpreter state?'.
Reads JSON lines {"name":..., "args":[...]} on stdin; every request is served by a forked child of this process, which has
imported the library and the catalogue but has never executed a single catalogue call - so each answer comes from a state
that no earlier call has touched.  usage: fresh_oracle.py <repo> <verif>"""
import json, os, sys
sys.dont_write_bytecode = True
repo, here = sys.argv[1], sys.argv[2]
sys.path.insert(0, repo); sys.path.insert(0, here)
import logging; logging.disable(logging.CRITICAL)
from contracts import purity_catalogue as cat
for line in sys.stdin:
    line = line.strip()
    if not line:
        continue
    req = json.loads(line)
    r, w = os.pipe()
    pid = os.fork()
    if pid == 0:
        os.close(r)
        try:
            out = cat.perform(req["name"], cat.decode_args(req["args"]))[0]
        except BaseException as e:
            out = "ORACLE-CRASH %r" % (e,)
        os.write(w, json.dumps(out).encode()); os.close(w); os._exit(0)
    os.close(w)
    buf = b""
    while True:
        ch = os.read(r, 65536)
        if not ch: break
        buf += ch
    os.close(r); os.waitpid(pid, 0)
    sys.stdout.write(buf.decode() + "\n"); sys.stdout.flush()
