"""time every shape of a contract with a per-job budget: tools/timejobs.py <contract> [budget_s] [tier]"""
import sys, os, json, time, logging, multiprocessing as mp
HERE = os.path.dirname(os.path.dirname(os.path.abspath(__file__)))
sys.path.insert(0, os.environ.get("PYVC_REPO", "/repo")); sys.path.insert(0, HERE)
import run_check
def job(a):
    t = time.time(); r = run_check._job(a); return (a[1], r["paths"], round(time.time() - t, 1), r["undecided"][:1], len(r["refuted"]), (r.get("crash") or "")[-300:])
if __name__ == "__main__":
    run_check.load_contracts()
    from pyvc.contract import REGISTRY
    fn = REGISTRY[sys.argv[1]]; budget = int(sys.argv[2]) if len(sys.argv) > 2 else 20
    jobs = [(sys.argv[1], s, 20000, budget) for s in fn.shapes(sys.argv[3] if len(sys.argv) > 3 else "quick")]
    with mp.get_context("fork").Pool(16, initializer=run_check._init) as pool:
        res = pool.map(job, jobs, chunksize=1)
    res.sort(key=lambda r: -r[2])
    print("jobs", len(res), "total cpu", sum(r[2] for r in res), "paths", sum(r[1] for r in res))
    for r in res[:25]: print(r)
