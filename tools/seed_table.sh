#!/bin/bash
# run every seeded change (seeded/*/patch.diff) against the quick check of its property, in ONE scratch worktree of /repo
# (never in /repo itself); writes $1 (default /tmp/seed_table.txt).  ~1 h on 16 cores.
out=${1:-/tmp/seed_table.txt}; : > $out
WT=/tmp/wt_seedtable
git -C /repo worktree remove --force $WT 2>/dev/null
git -C /repo worktree add --detach -q $WT HEAD || exit 2
cd /verif
for d in ${SEEDS:-seeded/*/}; do
  n=$(basename $d); p=${n%%-*}
  (cd $WT && git checkout -q -- . && git apply /verif/$d/patch.diff) || { echo "== $n APPLY-FAIL" >> $out; continue; }
  t0=$(date +%s)
  res=$(PYVC_REPO=$WT timeout 2400 ./check $p --no-evidence 2>&1); rc=$?
  echo "== $n prop=$p exit=$rc secs=$(( $(date +%s)-t0 ))" >> $out
  echo "$res" | grep -E "^(VIOLATION|KNOWN-FINDING|UNDECIDED|CHECKER)" | sed 's#/verif/replays/##' | cut -c1-200 | head -3 >> $out
done
git -C /repo worktree remove --force $WT
echo DONE >> $out
