#!/bin/bash
# confirm a seeded change produced in a scratch worktree, then keep it under /verif/seeded/<name>/ and drop the worktree
# usage: confirm_seed.sh <property id> <worktree> <name>
set -u
P=$1; WT=$2; NAME=$3
cd $WT || exit 2
[ -f _seed/patch.diff ] || { echo "no patch"; exit 2; }
git checkout -q -- okdmr
clean_out=$(/venv/bin/python _seed/demo.py 2>&1 | tail -3); clean_rc=$?
clean_rc=$(/venv/bin/python _seed/demo.py >/dev/null 2>&1; echo $?)
git apply _seed/patch.diff || { echo "patch does not apply"; exit 2; }
tests=$(/venv/bin/python -m pytest -q -p no:cacheprovider --timeout=900 2>&1 | tail -1)
mut_rc=$(/venv/bin/python _seed/demo.py >/dev/null 2>&1; echo $?)
mut_out=$(/venv/bin/python _seed/demo.py 2>&1 | head -5)
echo "clean demo rc=$clean_rc ; tests: $tests ; mutated demo rc=$mut_rc"
if [ "$clean_rc" = 0 ] && [ "$mut_rc" != 0 ] && echo "$tests" | grep -q "204 passed"; then
  D=/verif/seeded/$NAME; mkdir -p $D
  cp _seed/patch.diff _seed/demo.py $D/
  /venv/bin/python - "$P" "$tests" "$mut_out" <<PY
import json, sys
m = json.load(open("_seed/meta.json"))
m["property"] = sys.argv[1]
m["confirmed"] = {"tests_with_change": sys.argv[2], "demo_unchanged_rc": 0, "demo_changed_rc": int("$mut_rc"), "demo_changed_output_head": sys.argv[3],
                  "ran": "git checkout -- okdmr; demo.py (rc 0); git apply patch.diff; pytest -q (204 passed); demo.py (rc != 0)"}
json.dump(m, open("$D/meta.json", "w"), indent=1)
PY
  echo "KEPT $D"
else
  echo "NOT CONFIRMED"
  exit 1
fi
