#!/bin/bash
# Offline set-up: python3.12 overlay venv with z3-solver / cvc5 / jsonschema from the wheelhouse,
# plus a .pth that makes /venv's site-packages (bitarray, numpy, kaitai, ... = the repository's own deps) importable.
set -e
cd "$(dirname "$0")"
V=.venv
if [ ! -x $V/bin/python ] || ! $V/bin/python -c "import z3, cvc5, jsonschema, bitarray, numpy" 2>/dev/null; then
  rm -rf $V
  /venv/bin/python -m venv $V
  PIP_NO_INDEX=1 $V/bin/python -m pip install -q --no-index --find-links /opt/veriftools/wheels z3-solver cvc5 jsonschema >/dev/null
  SP=$($V/bin/python -c "import sysconfig; print(sysconfig.get_paths()['purelib'])")
  echo "import site; site.addsitedir('/venv/lib/python3.12/site-packages')" > $SP/_repo_deps.pth
  $V/bin/python -c "import z3, cvc5, jsonschema, bitarray, numpy"
fi
echo "setup ok: $($V/bin/python -c 'import z3,cvc5,sys; print(sys.version.split()[0], z3.get_version_string(), cvc5.__version__)')"
