"""PyVC feasibility prototype, core: Zhegalkin-polynomial bits, path conditions, exploration.

A symbolic bit is a polynomial over GF(2) in *atoms* (canonical algebraic normal form):
    frozenset of monomials, monomial = frozenset of atom ids, empty monomial = constant 1.
Atoms are inputs (base) or opaque gate outputs (defined, with a structural definition that
is only opened by the SMT back end and by counterexample evaluation).
"""
import itertools
import traceback
import time

import z3

PROD_LIMIT = 4096  # max monomials of an expanded product before going opaque
ENUM_LIMIT = 22  # max joint support for bit-parallel enumeration
import os
DEBUG = bool(os.environ.get("PYVC_DEBUG"))
CONJ_EXPAND = 64  # conjunctions whose expansion could exceed this many monomials stay opaque gates

ONE_M = frozenset()  # the empty monomial (constant 1)
ZERO = frozenset()  # polynomial 0
ONE = frozenset([ONE_M])  # polynomial 1


class EngineSignal(Exception):
    """engine-level outcome of a path; also recorded in the path context because the repository contains bare
    ``except:`` clauses that would swallow it"""

    def __init__(self, *a):
        super().__init__(*a)
        try:
            if C.poison is None:
                C.poison = self
        except NameError:
            pass


class OutOfReach(EngineSignal):
    pass


class Undecided(EngineSignal):
    pass


class EngineError(EngineSignal):
    pass


def unpoison(e):
    """an engine signal that engine code itself caught and handled"""
    if C.poison is e:
        C.poison = None


class ModelGap(AttributeError):
    """an attribute of a proxy value that the engine does not model was asked for.  An AttributeError so that hasattr()
    probes keep working; when it ESCAPES from the code under verification the path is undecided, not an exception of the
    real code (the real object has the attribute)"""


PROXY_NAMES = ("SBit", "SInt", "SLin", "SNeg", "SDiff", "SBits", "SBytes", "SByteArray", "SArray", "SymMember", "SymList", "SymSeq", "SymDict", "SFun", "SZInt", "SZInv",
               "SArith", "SBinStr", "LazyBin", "SNd", "NumpyFacade", "s_int", "s_bytes", "ZBytes", "KBytes", "StructFacade", "SDyadic")


def is_model_gap(e):
    """an exception that exists only because a value is a proxy: the real library object would not have raised it"""
    if isinstance(e, ModelGap):
        return True
    if isinstance(e, (TypeError, AttributeError, NotImplementedError)):
        msg = str(e)
        return any(("'%s'" % n) in msg or (" %s " % n) in (" " + msg + " ") for n in PROXY_NAMES)
    return False


class JobTimeout(BaseException):
    """the per-job wall-clock budget ran out (raised from the SIGALRM handler; a BaseException so that neither the code
    under verification nor the path loop can mistake it for an exception of the real code)"""


class Ctx:
    def __init__(self):
        self.reset_path()
        self.decisions = []
        self.pending = []
        self.stats = dict(z3=0, enum=0, gauss=0, forks=0, forced=0, paths=0, z3_time=0.0)
        self.feas_cache = {}

    def reset_path(self):
        self.natoms = 0
        self.names = []
        self.gates = {}  # atom -> ("and", (poly,...))
        self.gate_cache = {}
        self.pos = 0
        self.subst = {}  # atom -> poly  (affine path constraints, solved form)
        self.pc = []  # every assumed constraint (poly that equals 1), in order
        self.pc_hash = 0
        self.pc_other = []  # non-affine constraints kept for SMT / enumeration
        self.trace = []  # (site, decision) for divergence detection
        self.zint_axioms = []
        self.poison = None
        self.nonlin = set()  # atoms seen in a monomial of degree >= 2 (pivot selection heuristic only)
        self.decided = {}  # raw condition poly -> outcome assumed on this path (the same test asked again is forced)

    def fresh(self, name):
        i = self.natoms
        self.natoms += 1
        self.names.append(name)
        return i


C = Ctx()


# ---------------------------------------------------------------- polynomials
def pvar(i):
    return frozenset([frozenset([i])])


def padd(p, q):
    return p ^ q


def pmul(p, q):
    if not p or not q:
        return ZERO
    if p == ONE:
        return q
    if q == ONE:
        return p
    if len(p) * len(q) > PROD_LIMIT:
        return None
    acc = {}
    for a in p:
        for b in q:
            m = a | b
            if m in acc:
                del acc[m]
            else:
                acc[m] = 1
    return frozenset(acc)


def patoms(p):
    s = set()
    for m in p:
        s |= m
    return s


def pis_affine(p):
    return all(len(m) <= 1 for m in p)


def psubst(p, sub):
    """substitute atom -> poly for atoms in sub (sub values must not mention keys of sub)"""
    if not sub or not p:
        return p
    keys = sub.keys() if len(sub) > 1 else None
    if keys is None:
        (k0,) = sub
        hits = [m for m in p if k0 in m]
    else:
        hits = [m for m in p if not m.isdisjoint(keys)]
    if not hits:
        return p
    out = p.difference(hits)
    acc = {}
    for m in hits:
        if len(m) == 1:
            (a,) = m
            term = sub[a]
        else:
            term = frozenset([frozenset(a for a in m if a not in sub)])
            for a in m:
                if a in sub:
                    term = pmul(term, sub[a])
                    if term is None:
                        raise Undecided("substitution blow-up")
        for t in term:
            if t in acc:
                del acc[t]
            else:
                acc[t] = 1
    return out ^ frozenset(acc)


def gate_and(polys):
    """opaque atom standing for the conjunction of polys"""
    key = ("and", tuple(sorted(polys, key=lambda p: (len(p), sorted(map(sorted, p))))))
    a = C.gate_cache.get(key)
    if a is None:
        a = C.fresh(f"g{C.natoms}")
        C.gates[a] = key
        C.gate_cache[key] = a
        for q in polys:
            note_nonlinear(q)
    return pvar(a)


def note_nonlinear(p):
    nl = C.nonlin
    for m in p:
        if len(m) > 1:
            nl.update(m)


def pand(p, q):
    r = pmul(p, q)
    if r is None:
        return gate_and([p, q])
    return r


def pand_many(ps):
    ps = [p for p in ps if p != ONE]
    if any(not p for p in ps):
        return ZERO
    if not ps:
        return ONE
    if len(ps) == 1:
        return ps[0]
    est = 1
    for p in ps:
        est *= len(p)
        if est > CONJ_EXPAND:  # keep the conjunction as a gate (its conjuncts stay visible: asserted true they become
            return gate_and(ps)  # separate - mostly affine - equalities; sound either way, a gate is just less canonical)
    acc = ONE
    for i, p in enumerate(ps):
        r = pmul(acc, p)
        if r is None:
            return gate_and(ps)
        acc = r
    return acc


def pnot(p):
    return p ^ ONE


def norm_under_pc(p):
    if C.subst:
        try:
            p = psubst(p, C.subst)
        except Undecided as e:
            # an eliminated atom occurs inside non-linear monomials of p and its solved form is long: un-eliminate it
            # (its defining equality goes back to the residual constraints, where the XOR-aware solver handles it)
            unpoison(e)
            bad = set()
            for m in p:
                if len(m) > 1:
                    bad.update(a for a in m if a in C.subst)
            for a in bad:
                rhs = C.subst.pop(a)
                C.pc_other.append(pvar(a) ^ rhs ^ ONE)
                C.nonlin.add(a)
            C.pc_hash = hash((C.pc_hash, "depivot", tuple(sorted(bad))))
            p = psubst(p, C.subst)
    return p


def norm_deep(p):
    return simplify_gates(norm_under_pc(p))


# -------------------------------------------------------------- evaluation
def peval(p, env):
    """env: dict atom->0/1 for base atoms; gates evaluated on demand"""
    r = 0
    for m in p:
        v = 1
        for a in m:
            if a not in env:
                g = C.gates.get(a)
                if g is None and a in C.subst:
                    # an eliminated atom: its value is that of its solved form (whatever order the caller fills the model in)
                    env[a] = 0  # (cycle guard; solved forms do not refer back)
                    env[a] = peval(C.subst[a], env)
                elif g is None:
                    env[a] = 0  # unconstrained input defaults to 0
                elif g[0] == "arith":
                    ar, i = g[1], g[2]
                    vals = [peval(o.p, env) for o in ar.operands]
                    env[a] = (ar.pyfn(*vals) >> i) & 1
                elif g[0] == "z3bool":
                    m = env.get("__z3model__")
                    if m is None:
                        raise Undecided("counter-model without integer values")
                    # the model fixes the integer variables; boolean atoms below the term take their env values
                    sub = [(z3atom(b), z3.BoolVal(bool(env[b]))) for b in list(env) if isinstance(b, int) and b not in C.gates]
                    env[a] = 1 if z3.is_true(m.eval(z3.substitute(g[1], *sub) if sub else g[1], model_completion=True)) else 0
                else:
                    env[a] = int(all(peval(q, env) for q in g[1]))
            if not env[a]:
                v = 0
                break
        r ^= v
    return r


_Z3ATOMS = {}


def z3_bool_atoms(expr):
    """engine atoms (Bool constants a<i>) occurring inside a z3 term: bits of symbolic words used in integer facts"""
    k = expr.get_id()
    r = _Z3ATOMS.get(k)
    if r is None:
        r = set()
        seen = set()
        todo = [expr]
        while todo:
            e = todo.pop()
            i = e.get_id()
            if i in seen:
                continue
            seen.add(i)
            if z3.is_const(e) and e.decl().kind() == z3.Z3_OP_UNINTERPRETED and z3.is_bool(e):
                n = e.decl().name()
                if n[:1] == "a" and n[1:].isdigit():
                    r.add(int(n[1:]))
            else:
                todo.extend(e.children())
        if len(_Z3ATOMS) > 20000:
            _Z3ATOMS.clear()
        _Z3ATOMS[k] = r
    return r


def base_support(polys, closed=False):
    """input atoms the polynomials depend on (through gate definitions); closed: also through the solved forms of eliminated atoms"""
    seen = set()
    todo = set()
    for p in polys:
        todo |= patoms(p)
    base = set()
    while todo:
        a = todo.pop()
        if a in seen:
            continue
        seen.add(a)
        g = C.gates.get(a)
        if g is None:
            base.add(a)
            if closed and a in C.subst:
                # an eliminated atom met below a gate definition (definitions keep the polynomials they were built from):
                # what is known about the atoms of its solved form is relevant too
                todo |= patoms(C.subst[a])
        elif g[0] == "arith":
            for o in g[1].operands:
                todo |= patoms(o.p)
            if len(g[1].operands) > 10:
                base.add("zint")  # word-level arithmetic over many bits: the SMT back end, not 2^k native evaluations
        elif g[0] == "z3bool":
            base.add(("zint", g[1].get_id()))  # poison: forces the SMT back end and couples all int facts
            base.add("zint")
            todo |= z3_bool_atoms(g[1])
        else:
            for q in g[1]:
                todo |= patoms(q)
    return base


def tt_eval(polys, support):
    """bit-parallel truth tables (python ints) of polys over sorted support list"""
    k = len(support)
    n = 1 << k
    full = (1 << n) - 1
    pat = {}
    for idx, a in enumerate(support):
        # pattern with period 2^(idx+1): bit j set iff (j>>idx)&1
        p = ((1 << (1 << idx)) - 1) << (1 << idx)
        width = 1 << (idx + 1)
        while width < n:  # doubling
            p |= p << width
            width <<= 1
        pat[a] = p

    memo = {}

    def atom_tt(a):
        if a in pat:
            return pat[a]
        if a in memo:
            return memo[a]
        g = C.gates[a]
        if g[0] == "arith":
            ar, i = g[1], g[2]
            ops = [poly_tt(o.p) for o in ar.operands]
            v = 0
            for j in range(n):
                if (ar.pyfn(*[(t >> j) & 1 for t in ops]) >> i) & 1:
                    v |= 1 << j
            memo[a] = v
            return v
        v = full
        for q in g[1]:
            v &= poly_tt(q)
        memo[a] = v
        return v

    def poly_tt(p):
        r = 0
        for m in p:
            v = full
            for a in m:
                v &= atom_tt(a)
            r ^= v
        return r

    return [poly_tt(p) for p in polys], full


# -------------------------------------------------------------- SMT bridge
def z3atom(a):
    return z3.Bool(f"a{a}")


def z3poly(p):
    terms = []
    for m in p:
        if not m:
            terms.append(z3.BoolVal(True))
        elif len(m) == 1:
            terms.append(z3atom(next(iter(m))))
        else:
            terms.append(z3.And([z3atom(a) for a in sorted(m)]))
    if not terms:
        return z3.BoolVal(False)
    r = terms[0]
    for t in terms[1:]:
        r = z3.Xor(r, t)
    return r


def z3defs(polys):
    seen = set()
    todo = set()
    for p in polys:
        todo |= patoms(p)
    out = []
    while todo:
        a = todo.pop()
        if a in seen:
            continue
        seen.add(a)
        g = C.gates.get(a)
        if g is not None and g[0] == "arith":
            ar, i = g[1], g[2]
            out.append(z3atom(a) == (((ar.term / (1 << i)) % 2) == 1))
            for o in ar.operands:
                todo |= patoms(o.p)
        elif g is not None and g[0] == "z3bool":
            out.append(z3atom(a) == g[1])
            todo |= z3_bool_atoms(g[1])
        elif g is not None:
            out.append(z3atom(a) == z3.And([z3poly(q) for q in g[1]]))
            for q in g[1]:
                todo |= patoms(q)
    return out


def solve(constraints, want_model=False, timeout_ms=60000):
    """constraints: polys that must all be 1 (already normalised or not). Returns
    ('unsat',None) | ('sat', env|None). Uses enumeration for small support, else z3."""
    cons = [c for c in constraints if c != ONE]
    if any(not c for c in cons):
        return "unsat", None
    if not cons:
        return "sat", ({} if want_model else None)
    r = xor_solve(cons, want_model)
    if r is not None:
        C.stats["gauss"] += 1
        return r
    # gate definitions mention original atoms: re-attach the affine facts about eliminated pivots
    done = set()
    while True:
        new = [a for a in base_support(cons) if a in C.subst and a not in done]
        if not new:
            break
        for a in new:
            done.add(a)
            cons.append(pvar(a) ^ C.subst[a] ^ ONE)
    bs = base_support(cons)
    has_z = "zint" in bs
    sup = sorted(a for a in bs if isinstance(a, int))
    if len(sup) <= ENUM_LIMIT and not has_z:
        C.stats["enum"] += 1
        tts, full = tt_eval(cons, sup)
        v = full
        for t in tts:
            v &= t
        if not v:
            return "unsat", None
        if want_model:
            j = (v & -v).bit_length() - 1
            return "sat", {a: (j >> i) & 1 for i, a in enumerate(sup)}
        return "sat", None
    C.stats["z3"] += 1
    t0 = time.time()
    s = z3.Solver()
    s.set("timeout", timeout_ms)
    for c in cons:
        s.add(z3poly(c))
    for d in z3defs(cons):
        s.add(d)
    for ax in C.zint_axioms:
        s.add(ax)
    r = s.check()
    C.stats["z3_time"] += time.time() - t0
    if r == z3.unsat:
        return "unsat", None
    if r == z3.unknown:
        raise Undecided("solver unknown")
    if want_model:
        m = s.model()
        env = {"__z3model__": m}
        for a in base_support(cons):
            if isinstance(a, int):
                env[a] = 1 if z3.is_true(m.eval(z3atom(a), model_completion=True)) else 0
        return "sat", env
    return "sat", None


# -------------------------------------------------------------- path condition
def relevant_pc(p, closed=True):
    """non-affine constraints sharing (transitively) base support with p (closed: also through the solved forms of
    eliminated atoms met below gate definitions - needed for counter-models, not for `unsat`)"""
    sup = base_support([p], closed=closed)
    rel = []
    rest = list(C.pc_other)
    changed = True
    while changed:
        changed = False
        for q in list(rest):
            s = base_support([q], closed=closed)
            if s & sup:
                sup |= s
                rel.append(q)
                rest.remove(q)
                changed = True
    return rel


def assume(p):
    """add constraint p == 1 to the path condition (p already normalised)"""
    C.pc.append(p)
    C.pc_hash = hash((C.pc_hash, p))
    note_nonlinear(p)
    if p == ONE:
        return
    if not p:
        raise EngineError("assuming false")
    q = p ^ ONE  # q == 0
    lg = as_linear_gate(p)
    if lg is not None and not lg[0]:
        for c in lg[1]:
            assume(norm_under_pc(c))
        return
    if pis_affine(q):
        # pick pivot: any atom of q that is not a gate if possible
        # ... and, among those, one that is not known to occur in a non-linear monomial anywhere (substituting such an
        # atom multiplies polynomials); single-atom facts (a = const) are harmless whatever the atom
        atoms = sorted(patoms(q), key=lambda a: (a in C.gates, len(q) > 2 and a in C.nonlin, -a))
        piv = atoms[0]
        if piv in C.gates:  # only opaque atoms: keep the fact together with the gate definition
            C.pc_other.append(p)
            return
        rhs = q ^ pvar(piv)  # piv = rhs
        # eliminate piv from existing substitutions
        for k, v in list(C.subst.items()):
            if any(piv in m for m in v):
                C.subst[k] = psubst(v, {piv: rhs})
        C.subst[piv] = rhs
        C.pc_other = [psubst(c, {piv: rhs}) for c in C.pc_other]
        C.stats["gauss"] += 1
    elif len(p) == 1:
        # single monomial == 1  =>  every atom in it is 1
        for a in next(iter(p)):
            assume(norm_under_pc(pvar(a)))
    else:
        # peel literal factors: p = a * q (every monomial contains a)  or  p = (1 ^ a) * q (p vanishes at a = 1)
        if len(p) <= 512:
            for a in sorted(patoms(p)):
                if a in C.gates:
                    continue
                if all(a in m for m in p):
                    rest = frozenset(m - {a} for m in p)
                    assume(norm_under_pc(pvar(a)))
                    assume(norm_under_pc(rest))
                    return
                at1 = ZERO
                for m in p:
                    at1 = at1 ^ frozenset([m - {a}])
                if not at1:  # p(a=1) == 0  =>  p = (1 ^ a) * p(a=0)
                    rest = frozenset(m for m in p if a not in m)
                    assume(norm_under_pc(pvar(a) ^ ONE))
                    assume(norm_under_pc(rest))
                    return
        C.pc_other.append(p)


def affine_system_feasible(polys):
    """polys (already normalised, all affine): can they all be 1 simultaneously?  pure Gauss, no commit"""
    sub = {}
    for p in polys:
        p = psubst(p, sub)
        if p == ONE:
            continue
        if not p:
            return False
        q = p ^ ONE
        piv = max(patoms(q))
        rhs = q ^ pvar(piv)
        for k, v in list(sub.items()):
            if any(piv in m for m in v):
                sub[k] = psubst(v, {piv: rhs})
        sub[piv] = rhs
    return True


def _gauss_add(sub, p):
    """add p == 1 (affine) to solved form sub (in place); False on contradiction"""
    p = psubst(p, sub)
    if p == ONE:
        return True
    if not p:
        return False
    q = p ^ ONE
    piv = max(patoms(q))
    rhs = q ^ pvar(piv)
    for k, v in list(sub.items()):
        if any(piv in m for m in v):
            sub[k] = psubst(v, {piv: rhs})
    sub[piv] = rhs
    return True


def xor_solve(cons, want_model=False):
    """Exact procedure for the fragment that dominates this code base: constraints that are GF(2)-affine in most atoms
    (set L: atoms that never occur in a monomial of degree >= 2) and arbitrary in a small set S of atoms (enum folding,
    range restrictions, table look-ups on a few bits).  Accepted constraint shapes: polynomials without opaque atoms
    (must be 1), conjunction gates asserted true (all conjuncts 1) or false (some conjunct 0).
    Gaussian elimination pivots only on L-atoms (substitution is then linear: no products, no blow-up); what remains
    are constraints over S alone, decided by bit-parallel enumeration of the <= 2^16 assignments of S; disjunctions by
    depth-first choice.  Returns None when a constraint is outside the fragment (opaque arithmetic atoms, |S| > 16)."""
    eqs, disj = [], []
    gates = C.gates
    for c in cons:
        lg = as_linear_gate(c, affine_only=False)
        if lg is not None:
            neg, qs = lg
            if neg:
                disj.append(qs)
            else:
                eqs.extend(qs)
            continue
        if any(a in gates for m in c for a in m):
            if DEBUG:
                print("xor_solve: opaque atom in constraint", [(a, gates[a][0]) for m in c for a in m if a in gates][:4], len(c))
            return None
        eqs.append(c)
    nonlin = set()
    for q in itertools.chain(eqs, *disj):
        for m in q:
            if len(m) > 1:
                nonlin |= m
    if len(nonlin) > 40:
        if DEBUG:
            print("xor_solve: |S| =", len(nonlin), [C.names[a] for a in sorted(nonlin)])
            for q in itertools.chain(eqs, *disj):
                nl = set()
                for m in q:
                    if len(m) > 1:
                        nl |= m
                if nl:
                    print("    nonlinear constraint: monomials", len(q), "atoms", sorted(C.names[a] for a in nl))
        return None
    S = sorted(nonlin)

    def subst_lin(p, sub):
        hit = [a for m in p if len(m) == 1 for a in m if a in sub]
        for a in hit:
            p = p ^ frozenset([frozenset([a])]) ^ sub[a]
        return p

    class TooBig(Exception):
        pass

    def components(resid):
        """connected components of the residual constraints (shared atoms); satisfiable iff each component is"""
        comps = []  # list of (atomset, [polys])
        for q in resid:
            at = atoms_cache.get(q)
            if at is None:
                at = atoms_cache[q] = patoms(q)
            merged = (set(at), [q])
            rest = []
            for c in comps:
                if c[0] & merged[0]:
                    merged = (merged[0] | c[0], merged[1] + c[1])
                else:
                    rest.append(c)
            comps = rest + [merged]
        return comps

    comp_cache = {}
    tt_cache = {}
    atoms_cache = {}

    def comp_models(atoms, polys):
        key = frozenset(polys)
        hit = comp_cache.get(key)
        if hit is not None:
            return hit
        sup = sorted(atoms)
        if len(sup) > 20:
            raise TooBig()
        tsup = tuple(sup)
        v = (1 << (1 << len(sup))) - 1
        for q in sorted(polys, key=len):
            t = tt_cache.get((q, tsup))
            if t is None:
                t = tt_eval([q], sup)[0][0]
                tt_cache[(q, tsup)] = t
            v &= t
            if not v:
                break
        comp_cache[key] = (sup, v)
        return sup, v

    def resid_ok(resid):
        if not resid:
            return True
        for atoms, polys in components(resid):
            if not comp_models(atoms, polys)[1]:
                return False
        return True

    def add(state, p):
        """state = (sub, resid); add p == 1; False on contradiction"""
        sub, resid = state
        p = subst_lin(p, sub)
        if p == ONE:
            return True
        if not p:
            return False
        piv = None
        for m in p:
            if len(m) == 1:
                (a,) = m
                if a not in nonlin:
                    piv = a if piv is None or a > piv else piv
        if piv is None:
            resid.append(p)
            return resid_ok(resid)
        rhs = p ^ frozenset([frozenset([piv])]) ^ ONE  # p == 1  <=>  piv == rest ^ 1
        pv = frozenset([frozenset([piv])])
        for k, v in list(sub.items()):
            if frozenset([piv]) in v:
                sub[k] = v ^ pv ^ rhs
        sub[piv] = rhs
        return True

    disj.sort(key=len)

    def dfs(i, state):
        if i == len(disj):
            return state
        # a disjunct that already holds under the current solved form satisfies the group without any choice
        reduced = []
        for q in disj[i]:
            r = subst_lin(q, state[0])
            if not r:
                return dfs(i + 1, state)
            if r != ONE:
                reduced.append(r)
        for q in reduced:
            s2 = (dict(state[0]), list(state[1]))
            if add(s2, q ^ ONE):  # q == 0
                r = dfs(i + 1, s2)
                if r is not None:
                    return r
        return None

    state = ({}, [])
    try:
        for e in eqs:
            if not add(state, e):
                return "unsat", None
        r = dfs(0, state)
    except TooBig:
        if DEBUG:
            print("xor_solve: residual component over more than 20 atoms")
        return None

    if r is None:
        return "unsat", None
    if not want_model:
        return "sat", None
    sub, resid = r
    env = {}
    for atoms, polys in components(resid):
        sup, v = comp_models(atoms, polys)
        j = (v & -v).bit_length() - 1
        for i, a in enumerate(sup):
            env[a] = (j >> i) & 1
    for a in S:
        env.setdefault(a, 0)
    for a in set().union(*[patoms(v) for v in sub.values()] or [set()]):
        env.setdefault(a, 0)
    for piv, rhs in sub.items():
        env[piv] = peval(rhs, dict(env))
    return "sat", env


def _gate_conjuncts(a, depth=0, affine_only=True):
    """conjuncts (normalised, free of opaque atoms; affine ones only unless affine_only=False) of the conjunction that
    atom `a` stands for, or None.  A plain atom stands for itself; an `and` gate for its conjuncts (nested conjunction
    gates are flattened)."""
    gate = C.gates.get(a)
    if gate is None:
        return [norm_under_pc(pvar(a))]
    if gate[0] != "and" or depth > 6:
        return None
    out = []
    for q in gate[1]:
        q = norm_under_pc(q)
        if (pis_affine(q) or not affine_only) and not any(b in C.gates for m in q for b in m):
            out.append(q)
            continue
        if len(q) == 1:  # a monomial of atoms / gates: conjunction again
            for b in next(iter(q)):
                sub = _gate_conjuncts(b, depth + 1, affine_only)
                if sub is None:
                    return None
                out.extend(sub)
            continue
        return None
    return out


def as_linear_gate(p, affine_only=True):
    """p == M or M^1 for a single monomial M of atoms / conjunction gates whose conjuncts are affine over non-gate atoms
    under the pc -> (negated, conjuncts): p holds iff all conjuncts are 1 (negated: iff some conjunct is 0)"""
    core_p = p ^ ONE if ONE_M in p else p
    if len(core_p) != 1:
        return None
    m = next(iter(core_p))
    if not m or not any(a in C.gates for a in m):
        return None
    qs = []
    for a in m:
        sub = _gate_conjuncts(a, 0, affine_only)
        if sub is None:
            return None
        qs.extend(sub)
    return (ONE_M in p), qs


def simplify_gates(p):
    """replace conjunction-gate atoms whose conjuncts are all decided by the path condition"""
    if not C.gates or not any(a in C.gates for m in p for a in m):
        return p
    sub = {}
    for a in patoms(p):
        if a in C.gates and C.gates[a][0] == "and":
            qs = _gate_conjuncts(a)
            if qs is None:
                continue
            if any(not q for q in qs):
                sub[a] = ZERO
            elif all(q == ONE for q in qs):
                sub[a] = ONE
    return psubst(p, sub) if sub else p


def entails_status(p):
    """p normalised. returns 'true' | 'false' | 'both'"""
    if p == ONE:
        return "true"
    if not p:
        return "false"
    rel = relevant_pc(p)
    if rel:  # asked before on this path (a second parse of the same octets re-tests the same conditions)
        if p in rel:
            return "true"
        if pnot(p) in rel:
            return "false"
    lg = as_linear_gate(p) if not rel else None
    if lg is not None:
        neg, qs = lg
        can1 = affine_system_feasible(qs)
        can0 = any(q != ONE for q in qs)
        if neg:
            can1, can0 = can0, can1
        C.stats["gauss"] += 1
        return "both" if (can1 and can0) else ("true" if can1 else "false")
    key = (p, C.pc_hash)
    r = C.feas_cache.get(key)
    if r is None:
        if not rel and pis_affine(p) and not (patoms(p) & set(C.gates)):
            r = "both"  # a non-constant affine form over free inputs takes both values
        else:
            t = solve(rel + [p])[0] == "sat"
            f = solve(rel + [pnot(p)])[0] == "sat"
            if t and f:
                r = "both"
            elif t:
                r = "true"
            elif f:
                r = "false"
            else:
                raise EngineError("path condition became unsatisfiable")
        C.feas_cache[key] = r
    return r


def branch(p, site=None):
    """decide symbolic condition p (poly); forks when both outcomes are feasible"""
    raw = p
    d0 = C.decided.get(raw)
    if d0 is None:
        d0 = C.decided.get(raw ^ ONE)
        d0 = None if d0 is None else (not d0)
    if d0 is not None:
        C.stats["forced"] += 1
        return d0
    p = norm_deep(p)
    st = entails_status(p)
    C.decided[raw] = True if st == "true" else (False if st == "false" else None)
    if C.decided[raw] is None:
        del C.decided[raw]
    if st == "true":
        C.stats["forced"] += 1
        assume(p) if p != ONE else None
        return True
    if st == "false":
        C.stats["forced"] += 1
        assume(pnot(p)) if p else None
        return False
    if C.pos < len(C.decisions):
        d = C.decisions[C.pos]
    else:
        C.pending.append(C.decisions[: C.pos] + [False])
        C.decisions.append(True)
        d = True
        C.stats["forks"] += 1
        if DEBUG:
            import traceback

            fr = [f for f in traceback.extract_stack(limit=14) if "/pyvc/" not in f.filename]
            print("fork at", " <- ".join("%s:%d" % (f.filename.split("/")[-1], f.lineno) for f in reversed(fr[-3:])))
    C.pos += 1
    assume(p if d else pnot(p))
    C.decided[raw] = d
    return d


def explore(fn, max_paths=20000, on_exception=None):
    """run fn under every feasible path; fn builds its own inputs; returns list of (decisions, outcome):
    ("ok", value) | ("exc", exception, witness) | ("undecided", signal)"""
    C.pending = [[]]
    C.feas_cache = {}
    C.stats["paths"] = 0
    results = []
    while C.pending:
        dec = C.pending.pop()
        C.decisions = list(dec)
        C.reset_path()
        C.stats["paths"] += 1
        if C.stats["paths"] > max_paths:
            # keep what the explored paths established (refutations stand); the rest of the job is undecided
            results.append((list(C.decisions), ("undecided", Undecided("path budget (%d paths)" % max_paths))))
            break
        try:
            out = ("ok", fn())
            if C.poison is not None:  # swallowed by the code under verification
                out = ("undecided", C.poison)
        except EngineError:
            raise
        except JobTimeout:
            results.append((list(C.decisions), ("undecided", Undecided("job budget exceeded after %d paths" % C.stats["paths"]))))
            break
        except (OutOfReach, Undecided) as e:
            out = ("undecided", e)
        except Exception as e:  # path ends in a python exception
            if C.poison is not None:
                out = ("undecided", C.poison)
            elif is_model_gap(e):
                tb = traceback.extract_tb(e.__traceback__)
                where = next(("%s:%d" % (f.filename.split("/")[-1], f.lineno) for f in reversed(tb) if "/pyvc/" not in f.filename), "?")
                out = ("undecided", OutOfReach("operation on a proxy value the engine does not model (%s: %s) @%s" % (type(e).__name__, str(e)[:120], where)))
            else:
                out = ("exc", e, on_exception() if on_exception else None)
        if out[0] != "undecided" and C.pos != len(C.decisions):
            raise EngineError("replay divergence")
        results.append((list(C.decisions), out))
    return results
