"""unbounded symbolic integers for state-machine contracts: z3 Int terms; comparisons are 'z3bool' gate atoms"""
import z3
from . import core
from .core import C, pvar
from .values import SBit, SInt, SLin, mkbit


def _term(x):
    if isinstance(x, SZInt):
        return x.t
    if isinstance(x, bool):
        return z3.IntVal(int(x))
    if isinstance(x, int):
        return z3.IntVal(x)
    if isinstance(x, SBit):
        return z3.If(core.z3poly(x.p), 1, 0)
    if isinstance(x, (SInt, SLin)):
        l = SLin.lift(x)
        t = z3.IntVal(l.k)
        for p, c in l.t.items():
            t = t + c * z3.If(core.z3poly(p), 1, 0)
        return t
    raise core.OutOfReach("zint operand %s" % type(x))


def zbool(expr):
    expr = z3.simplify(expr)
    if z3.is_true(expr):
        return True
    if z3.is_false(expr):
        return False
    key = ("z3bool", expr.get_id())
    a = C.gate_cache.get(key)
    if a is None:
        a = C.fresh(f"zb{C.natoms}")
        C.gates[a] = ("z3bool", expr)
        C.gate_cache[key] = a
    return SBit(pvar(a))


class SZInt:
    def __init__(self, t):
        self.t = t

    @staticmethod
    def fresh(name, lo=0):
        v = z3.Int(name)
        C.zint_axioms.append(v >= lo)
        return SZInt(v)

    def __add__(self, o): return SZInt(self.t + _term(o))
    __radd__ = __add__
    def __sub__(self, o): return SZInt(self.t - _term(o))
    def __rsub__(self, o): return SZInt(_term(o) - self.t)
    def __eq__(self, o): return zbool(self.t == _term(o))
    def __ne__(self, o): return zbool(self.t != _term(o))
    def __lt__(self, o): return zbool(self.t < _term(o))
    def __le__(self, o): return zbool(self.t <= _term(o))
    def __gt__(self, o): return zbool(self.t > _term(o))
    def __ge__(self, o): return zbool(self.t >= _term(o))
    def __bool__(self): return bool(self != 0)
    def __hash__(self): raise core.OutOfReach("hash of symbolic int")
    def __deepcopy__(self, memo): return self
    def __repr__(self): return "SZInt"
