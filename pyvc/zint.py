"""unbounded symbolic integers for state-machine contracts: z3 Int terms; comparisons are 'z3bool' gate atoms"""
import z3
from . import core
from .core import C, pvar
from .values import SBit, SInt, SLin, mkbit, ByteSeqOps


def _term(x):
    if isinstance(x, SZInt):
        return x.t
    if isinstance(x, bool):
        return z3.IntVal(int(x))
    if isinstance(x, int):
        return z3.IntVal(x)
    if isinstance(x, SBit):
        return z3.If(core.z3poly(x.p), 1, 0)
    if isinstance(x, (SInt, SLin)):
        l = SLin.lift(x)
        t = z3.IntVal(l.k)
        for p, c in l.t.items():
            t = t + c * z3.If(core.z3poly(p), 1, 0)
        return t
    raise core.OutOfReach("zint operand %s" % type(x))


def zbool(expr):
    expr = z3.simplify(expr)
    if z3.is_true(expr):
        return True
    if z3.is_false(expr):
        return False
    key = ("z3bool", expr.get_id())
    a = C.gate_cache.get(key)
    if a is None:
        a = C.fresh(f"zb{C.natoms}")
        C.gates[a] = ("z3bool", expr)
        C.gate_cache[key] = a
    return SBit(pvar(a))


class SZInt:
    def __getattr__(self, k):
        from .core import ModelGap

        raise ModelGap("'SZInt' proxy has no model of attribute '%s'" % k)

    def __init__(self, t):
        self.t = t

    @staticmethod
    def fresh(name, lo=0, hi=None):
        v = z3.Int(name)
        C.zint_axioms.append(v >= lo)
        if hi is not None:
            C.zint_axioms.append(v <= hi)
        return SZInt(v)

    def __add__(self, o): return SZInt(self.t + _term(o))
    __radd__ = __add__
    def __sub__(self, o): return SZInt(self.t - _term(o))
    def __rsub__(self, o): return SZInt(_term(o) - self.t)
    def __eq__(self, o): return zbool(self.t == _term(o))
    def __ne__(self, o): return zbool(self.t != _term(o))
    def __lt__(self, o): return zbool(self.t < _term(o))
    def __le__(self, o): return zbool(self.t <= _term(o))
    def __gt__(self, o): return zbool(self.t > _term(o))
    def __ge__(self, o): return zbool(self.t >= _term(o))
    def __bool__(self): return bool(self != 0)
    # word-level shifts / masks / modulus by constants (non-negative values: stated by the fresh() axioms of the operands)
    def __rshift__(self, n): return SZInt(self.t / (1 << int(n)))
    def __lshift__(self, n): return SZInt(self.t * (1 << int(n)))
    def __mul__(self, k):
        if not isinstance(k, int): raise core.OutOfReach("non-linear integer product")
        return SZInt(self.t * k)
    __rmul__ = __mul__
    def __mod__(self, m): return SZInt(self.t % int(m))
    def _and_const(self, c):
        """x & c for a constant c >= 0 and x >= 0: every run of one-bits [a, b) of c contributes ((x div 2^a) mod 2^(b-a)) * 2^a"""
        c = int(c)
        if c < 0: raise core.OutOfReach("negative mask on symbolic integer")
        t, a = z3.IntVal(0), 0
        first = True
        while c >> a:
            if not (c >> a) & 1:
                a += 1
                continue
            b = a
            while (c >> b) & 1:
                b += 1
            run = (self.t % (1 << b)) if a == 0 else ((self.t / (1 << a)) % (1 << (b - a))) * (1 << a)
            t = run if first else t + run
            first = False
            a = b
        return t
    def __and__(self, mask):
        if not isinstance(mask, int): raise core.OutOfReach("bitwise operation between symbolic integers")
        return SZInt(self._and_const(mask))
    __rand__ = __and__
    def __invert__(self): return SZInv(self)
    def __xor__(self, mask):
        if not isinstance(mask, int): raise core.OutOfReach("bitwise operation between symbolic integers")
        if mask >= 0 and not mask & (mask + 1):
            low = self.t % (mask + 1)
            return SZInt(self.t - low + (mask - low))
        return SZInt(self.t + mask - 2 * self._and_const(mask))
    __rxor__ = __xor__
    def __or__(self, mask):
        if not isinstance(mask, int): raise core.OutOfReach("bitwise operation between symbolic integers")
        return SZInt(self.t + mask - self._and_const(mask))
    __ror__ = __or__
    def __index__(self): raise core.OutOfReach("a symbolic integer used as an index / count")
    def bit(self, i): return zbool((self.t / (1 << i)) % 2 == 1)
    def to_bytes(self, length=1, byteorder="big", signed=False):
        """octets of a value the caller knows to fit (an overflow is a separate fork: CPython raises OverflowError)"""
        from .values import SBytes
        if bool(zbool(self.t >= (1 << (8 * length)))) or bool(zbool(self.t < 0)):
            raise OverflowError("int too big to convert")
        by = [SZInt((self.t / (1 << (8 * i))) % 256) for i in range(length)]  # word-level octets (no bit extraction)
        if byteorder == "big":
            by.reverse()
        r = ZBytes(by)
        r.zsrc = (self, byteorder)  # ghost: the word these octets spell (lets a contract compare at word level)
        return r
    def __hash__(self): raise core.OutOfReach("hash of symbolic int")
    def __deepcopy__(self, memo): return self
    def __repr__(self): return "SZInt"


class SZInv:
    """~x of a symbolic natural (a negative number): only  (~x) & (2^k - 1)  =  2^k - 1 - (x mod 2^k)  is supported"""

    def __getattr__(self, k):
        from .core import ModelGap

        raise ModelGap("'SZInv' proxy has no model of attribute '%s'" % k)


    def __init__(self, x):
        self.x = x

    def __and__(self, mask):
        mask = int(mask)
        if mask < 0 or mask & (mask + 1):
            raise core.OutOfReach("mask on symbolic integer")
        return SZInt(mask - (self.x.t % (mask + 1)))

    __rand__ = __and__

    def __invert__(self):
        return self.x


class ZBytes(ByteSeqOps):
    """octet string whose elements are word-level integers (SZInt in 0..255, or ints): what bytes([...]) / to_bytes() give
    for symbolic integers; arithmetic on it stays in linear integer arithmetic, no bit extraction"""

    def __init__(self, items):
        self.v = list(items)

    def __getattr__(self, k):
        raise core.ModelGap("'ZBytes' proxy has no model of attribute '%s'" % k)

    def __len__(self):
        return len(self.v)

    def __iter__(self):
        return iter(list(self.v))

    def __getitem__(self, i):
        if isinstance(i, slice):
            return ZBytes(self.v[i])
        return self.v[i]

    @staticmethod
    def _items(o):
        if isinstance(o, ZBytes):
            return list(o.v)
        if isinstance(o, (bytes, bytearray)):
            return list(o)
        if type(o).__name__ in ("SBytes", "SByteArray"):
            return list(o.v)
        raise core.OutOfReach("concatenation of word-level octets with %s" % type(o).__name__)

    def __add__(self, o):
        return ZBytes(self.v + ZBytes._items(o))

    def __radd__(self, o):
        return ZBytes(ZBytes._items(o) + self.v)

    def __mul__(self, k):
        return ZBytes(self.v * k)

    def __eq__(self, o):
        try:
            ov = ZBytes._items(o)
        except core.OutOfReach:
            return False
        if len(ov) != len(self.v):
            return False
        r = 1
        for x, y in zip(self.v, ov):
            e = (x == y) if isinstance(x, SZInt) else ((y == x) if isinstance(y, (SZInt, SInt, SLin)) else (x == y))
            if e is False or e == 0 and not isinstance(e, SBit):
                return False
            if isinstance(e, SBit):
                r = e & r if isinstance(r, SBit) else (e if r else 0)
        return r if isinstance(r, SBit) else bool(r)

    def __ne__(self, o):
        r = self.__eq__(o)
        return ~r if isinstance(r, SBit) else (not r)

    def __hash__(self):
        raise core.OutOfReach("hash of symbolic octets")

    def __repr__(self):
        return "<%d word-level octets>" % len(self.v)
