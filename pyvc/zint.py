"""unbounded symbolic integers for state-machine contracts: z3 Int terms; comparisons are 'z3bool' gate atoms"""
import z3
from . import core
from .core import C, pvar
from .values import SBit, SInt, SLin, mkbit


def _term(x):
    if isinstance(x, SZInt):
        return x.t
    if isinstance(x, bool):
        return z3.IntVal(int(x))
    if isinstance(x, int):
        return z3.IntVal(x)
    if isinstance(x, SBit):
        return z3.If(core.z3poly(x.p), 1, 0)
    if isinstance(x, (SInt, SLin)):
        l = SLin.lift(x)
        t = z3.IntVal(l.k)
        for p, c in l.t.items():
            t = t + c * z3.If(core.z3poly(p), 1, 0)
        return t
    raise core.OutOfReach("zint operand %s" % type(x))


def zbool(expr):
    expr = z3.simplify(expr)
    if z3.is_true(expr):
        return True
    if z3.is_false(expr):
        return False
    key = ("z3bool", expr.get_id())
    a = C.gate_cache.get(key)
    if a is None:
        a = C.fresh(f"zb{C.natoms}")
        C.gates[a] = ("z3bool", expr)
        C.gate_cache[key] = a
    return SBit(pvar(a))


class SZInt:
    def __getattr__(self, k):
        from .core import ModelGap

        raise ModelGap("'SZInt' proxy has no model of attribute '%s'" % k)

    def __init__(self, t):
        self.t = t

    @staticmethod
    def fresh(name, lo=0):
        v = z3.Int(name)
        C.zint_axioms.append(v >= lo)
        return SZInt(v)

    def __add__(self, o): return SZInt(self.t + _term(o))
    __radd__ = __add__
    def __sub__(self, o): return SZInt(self.t - _term(o))
    def __rsub__(self, o): return SZInt(_term(o) - self.t)
    def __eq__(self, o): return zbool(self.t == _term(o))
    def __ne__(self, o): return zbool(self.t != _term(o))
    def __lt__(self, o): return zbool(self.t < _term(o))
    def __le__(self, o): return zbool(self.t <= _term(o))
    def __gt__(self, o): return zbool(self.t > _term(o))
    def __ge__(self, o): return zbool(self.t >= _term(o))
    def __bool__(self): return bool(self != 0)
    # word-level shifts / masks / modulus by constants (non-negative values: stated by the fresh() axioms of the operands)
    def __rshift__(self, n): return SZInt(self.t / (1 << int(n)))
    def __lshift__(self, n): return SZInt(self.t * (1 << int(n)))
    def __mul__(self, k):
        if not isinstance(k, int): raise core.OutOfReach("non-linear integer product")
        return SZInt(self.t * k)
    __rmul__ = __mul__
    def __mod__(self, m): return SZInt(self.t % int(m))
    def __and__(self, mask):
        mask = int(mask)
        if mask < 0 or mask & (mask + 1): raise core.OutOfReach("mask on symbolic integer")
        return SZInt(self.t % (mask + 1))
    __rand__ = __and__
    def __invert__(self): return SZInv(self)
    def bit(self, i): return zbool((self.t / (1 << i)) % 2 == 1)
    def to_bytes(self, length=1, byteorder="big", signed=False):
        """octets of a value the caller knows to fit (an overflow is a separate fork: CPython raises OverflowError)"""
        from .values import SBytes
        if bool(zbool(self.t >= (1 << (8 * length)))) or bool(zbool(self.t < 0)):
            raise OverflowError("int too big to convert")
        by = [SInt(tuple(self.bit(8 * i + j) for j in range(8))).n() for i in range(length)]
        if byteorder == "big":
            by.reverse()
        r = SBytes(by)
        r.zsrc = (self, byteorder)  # ghost: the word these octets spell (lets a contract compare at word level)
        return r
    def __hash__(self): raise core.OutOfReach("hash of symbolic int")
    def __deepcopy__(self, memo): return self
    def __repr__(self): return "SZInt"


class SZInv:
    """~x of a symbolic natural (a negative number): only  (~x) & (2^k - 1)  =  2^k - 1 - (x mod 2^k)  is supported"""

    def __getattr__(self, k):
        from .core import ModelGap

        raise ModelGap("'SZInv' proxy has no model of attribute '%s'" % k)


    def __init__(self, x):
        self.x = x

    def __and__(self, mask):
        mask = int(mask)
        if mask < 0 or mask & (mask + 1):
            raise core.OutOfReach("mask on symbolic integer")
        return SZInt(mask - (self.x.t % (mask + 1)))

    __rand__ = __and__

    def __invert__(self):
        return self.x
