"""class-level / module-level dictionaries of the code under verification, usable with symbolic keys.

The repository keeps its constant tables - and a change may add a cache - in plain dicts that are class or module attributes.
A symbolic value cannot be hashed (its value is not known), so a plain dict cannot take it as a key.  After import every such
attribute whose value is exactly a `dict` is re-typed to `SymKeyDict` (same content, same attribute, one wrapper per object):

* concrete keys: unchanged dict behaviour;
* a symbolic key (a proxy, or a tuple that contains one) is looked up by EQUALITY with every stored key, symbolic or concrete,
  in insertion order; each comparison is a symbolic truth value and forks where both outcomes are feasible - exactly the
  semantics of a dict, which finds the one stored key that equals the lookup key;  a symbolic key that equals no stored key is
  stored in a side list (its entries are pairwise different under the path condition, so `len` is exact);
* every wrapper goes back to its import-time content at the start of each path (what one path stores must not be seen by the
  next one: paths are alternative executions, not a history).

Dicts created at run time inside functions (instance attributes, locals) and functools caches are not covered: hashing a
symbolic value there still ends the path as undecided (OutOfReach), never as proved.
"""
import enum
import sys

ALL = []  # every wrapper, for the per-path reset
_BY_ID = {}
PROXY_TYPES = ("SBit", "SInt", "SLin", "SNeg", "SDiff", "SBits", "SBytes", "SByteArray", "SZInt", "ZBytes", "SBinStr", "LazyBin", "SArith", "SymMember", "SFun")


def is_sym(k):
    if type(k).__name__ in PROXY_TYPES:
        return True
    if type(k) in (tuple, frozenset):
        return any(is_sym(x) for x in k)
    return False


def sym_eq(a, b):
    """equality of two keys as a (possibly symbolic) truth value"""
    if type(a) is tuple or type(b) is tuple:
        if type(a) is not tuple or type(b) is not tuple or len(a) != len(b):
            return False
        from .values import ball, SBit

        parts = []
        for x, y in zip(a, b):
            r = sym_eq(x, y)
            if r is False:
                return False
            if r is not True:
                parts.append(r)
        if not parts:
            return True
        return ball([p if isinstance(p, SBit) else (1 if p else 0) for p in parts])
    sa, sb = is_sym(a), is_sym(b)
    if not sa and not sb:
        return a == b
    # a proxy against a value of a kind it cannot equal (a str, None, an enum member that is no int ...): not equal
    other = b if sa else a
    if other is None or isinstance(other, (str, float)) and type(a if sa else b).__name__ not in ("SBinStr", "LazyBin"):
        return False
    try:
        r = (a == b) if sa else (b == a)
    except TypeError:
        return False
    if r is NotImplemented:
        return False
    return r


_MISSING = object()


class SymKeyDict(dict):
    def __init__(self, *a, **k):
        dict.__init__(self, *a, **k)
        self._sym = []  # [key, value] pairs with symbolic keys
        self._init = dict(self)
        self._dirty = False
        ALL.append(self)

    # ---- lookup
    def _find(self, key):
        """-> ('sym', index) | ('conc', stored key) | None; forks on the comparisons"""
        for i, (k, _) in enumerate(self._sym):
            if sym_eq(k, key):
                return ("sym", i)
        if is_sym(key):
            for k in dict.keys(self):
                if sym_eq(k, key):
                    return ("conc", k)
            return None
        return ("conc", key) if dict.__contains__(self, key) else None

    def _plain(self, key):
        return not self._sym and not is_sym(key)

    def __getitem__(self, key):
        if self._plain(key):
            return dict.__getitem__(self, key)
        hit = self._find(key)
        if hit is None:
            if hasattr(type(self), "__missing__"):
                return self.__missing__(key)
            raise KeyError(key)
        return self._sym[hit[1]][1] if hit[0] == "sym" else dict.__getitem__(self, hit[1])

    def get(self, key, default=None):
        if self._plain(key):
            return dict.get(self, key, default)
        hit = self._find(key)
        if hit is None:
            return default
        return self._sym[hit[1]][1] if hit[0] == "sym" else dict.__getitem__(self, hit[1])

    def __contains__(self, key):
        if self._plain(key):
            return dict.__contains__(self, key)
        return self._find(key) is not None

    # ---- mutation
    def __setitem__(self, key, value):
        self._dirty = True
        if self._plain(key):
            return dict.__setitem__(self, key, value)
        hit = self._find(key)
        if hit is None:
            if is_sym(key):
                self._sym.append([key, value])
            else:
                dict.__setitem__(self, key, value)
        elif hit[0] == "sym":
            self._sym[hit[1]][1] = value
        else:
            dict.__setitem__(self, hit[1], value)

    def __delitem__(self, key):
        self._dirty = True
        if self._plain(key):
            return dict.__delitem__(self, key)
        hit = self._find(key)
        if hit is None:
            raise KeyError(key)
        if hit[0] == "sym":
            del self._sym[hit[1]]
        else:
            dict.__delitem__(self, hit[1])

    def pop(self, key, default=_MISSING):
        self._dirty = True
        if self._plain(key):
            return dict.pop(self, key) if default is _MISSING else dict.pop(self, key, default)
        hit = self._find(key)
        if hit is None:
            if default is _MISSING:
                raise KeyError(key)
            return default
        if hit[0] == "sym":
            return self._sym.pop(hit[1])[1]
        return dict.pop(self, hit[1])

    def setdefault(self, key, default=None):
        if self._plain(key):
            if not dict.__contains__(self, key):
                self._dirty = True
            return dict.setdefault(self, key, default)
        hit = self._find(key)
        if hit is None:
            self[key] = default
            return default
        return self._sym[hit[1]][1] if hit[0] == "sym" else dict.__getitem__(self, hit[1])

    def update(self, *a, **k):
        self._dirty = True
        other = dict(*a, **k) if not (len(a) == 1 and isinstance(a[0], SymKeyDict) and not k) else None
        if other is not None and not self._sym:
            return dict.update(self, other)
        for kk, vv in (a[0].items() if other is None else other.items()):
            self[kk] = vv

    def clear(self):
        self._dirty = True
        del self._sym[:]
        dict.clear(self)

    def popitem(self):
        self._dirty = True
        if self._sym:
            k, v = self._sym.pop()
            return k, v
        return dict.popitem(self)

    def __ior__(self, other):
        self.update(other)
        return self

    # ---- views (concrete entries first, then the symbolic ones, each in insertion order)
    def __len__(self):
        return dict.__len__(self) + len(self._sym)

    def __bool__(self):
        return len(self) > 0

    def __iter__(self):
        if not self._sym:
            return dict.__iter__(self)
        return iter(list(dict.keys(self)) + [k for k, _ in self._sym])

    def keys(self):
        if not self._sym:
            return dict.keys(self)
        return list(dict.keys(self)) + [k for k, _ in self._sym]

    def values(self):
        if not self._sym:
            return dict.values(self)
        return list(dict.values(self)) + [v for _, v in self._sym]

    def items(self):
        if not self._sym:
            return dict.items(self)
        return list(dict.items(self)) + [(k, v) for k, v in self._sym]

    def copy(self):
        if not self._sym:
            return dict(self)
        raise_out("copy of a dictionary holding symbolic keys")

    def __deepcopy__(self, memo):
        import copy

        if self._sym:
            raise_out("deepcopy of a dictionary holding symbolic keys")
        return copy.deepcopy(dict(dict.items(self)), memo)

    def __reduce__(self):
        return (dict, (dict(dict.items(self)),))

    def __eq__(self, other):
        if self._sym or isinstance(other, SymKeyDict) and other._sym:
            raise_out("comparison of dictionaries holding symbolic keys")
        return dict.__eq__(self, other)

    def __ne__(self, other):
        return not self.__eq__(other)

    __hash__ = None

    def reset(self):
        if self._dirty or self._sym:
            dict.clear(self)
            dict.update(self, self._init)
            del self._sym[:]
            self._dirty = False


def raise_out(msg):
    from .core import OutOfReach

    raise OutOfReach(msg)


def install():
    """re-type the class-level and module-level dicts of the imported repository modules"""
    n = 0
    for name, mod in list(sys.modules.items()):
        if mod is None or not name.startswith("okdmr.dmrlib") or ".tests" in name:
            continue
        owners = [mod] + [v for v in vars(mod).values() if isinstance(v, type) and getattr(v, "__module__", None) == name and not issubclass(v, enum.Enum)]
        for o in owners:
            for k, v in list(vars(o).items()):
                if k.startswith("_") or type(v) is not dict:
                    continue
                w = _BY_ID.get(id(v))
                if w is None:
                    w = SymKeyDict(v)
                    _BY_ID[id(v)] = w
                    w._orig = v  # keeps the original alive (id stays unique)
                setattr(o, k, w)
                n += 1
    return n


def _functions_of(owner):
    import types

    for v in list(vars(owner).values()):
        f = v.__func__ if isinstance(v, (staticmethod, classmethod)) else v
        f = getattr(f, "fget", f) if isinstance(f, property) else f
        if isinstance(f, types.FunctionType):
            yield f


MUTABLE_DEFAULTS = []  # (container, snapshot) of list / set / bytearray default arguments
BIT_ATTRS = []  # (owner, attribute name, real bitarray): class-level / module-level bitarrays, re-created as models per path
BIT_DEFAULTS = []  # (function, index or keyword, real bitarray): bitarray default arguments, likewise


def _model_of(real):
    from .values import SBits

    return SBits(real.copy())


def install_bitarrays():
    """bitarrays created at import time (class-level templates, default arguments) are real bitarrays: code under
    verification that writes symbolic bits into one, or combines one with a model, needs the model - a fresh one per path"""
    from bitarray import bitarray as real_bitarray
    import types

    for name, mod in list(sys.modules.items()):
        if mod is None or not name.startswith("okdmr.dmrlib") or ".tests" in name:
            continue
        owners = [mod] + [v for v in vars(mod).values() if isinstance(v, type) and getattr(v, "__module__", None) == name and not issubclass(v, enum.Enum)]
        for o in owners:
            for k, v in list(vars(o).items()):
                if not k.startswith("__") and type(v) is real_bitarray:
                    BIT_ATTRS.append((o, k, v))
            for f in _functions_of(o):
                if getattr(f, "__module__", None) != name:
                    continue
                for i, v in enumerate(f.__defaults__ or ()):
                    if type(v) is real_bitarray:
                        BIT_DEFAULTS.append((f, i, v))
                for k, v in (f.__kwdefaults__ or {}).items():
                    if type(v) is real_bitarray:
                        BIT_DEFAULTS.append((f, k, v))
    reset_bitarrays()
    return len(BIT_ATTRS) + len(BIT_DEFAULTS)


def reset_bitarrays():
    for o, k, real in BIT_ATTRS:
        setattr(o, k, _model_of(real))
    for f, i, real in BIT_DEFAULTS:
        if isinstance(i, int):
            d = list(f.__defaults__)
            d[i] = _model_of(real)
            f.__defaults__ = tuple(d)
        else:
            f.__kwdefaults__[i] = _model_of(real)


def install_defaults():
    """mutable default arguments (evaluated once, shared by all calls): dicts become SymKeyDict, lists / sets / bytearrays are
    put back to their import-time content at the start of each path"""
    n = 0
    for name, mod in list(sys.modules.items()):
        if mod is None or not name.startswith("okdmr.dmrlib") or ".tests" in name:
            continue
        owners = [mod] + [v for v in vars(mod).values() if isinstance(v, type) and getattr(v, "__module__", None) == name]
        for o in owners:
            for f in _functions_of(o):
                if getattr(f, "__module__", None) != name:
                    continue
                d = f.__defaults__
                if d:
                    new = []
                    for v in d:
                        if type(v) is dict:
                            w = _BY_ID.get(id(v))
                            if w is None:
                                w = SymKeyDict(v)
                                _BY_ID[id(v)] = w
                                w._orig = v
                            v = w
                            n += 1
                        elif type(v) in (list, set, bytearray) and not any(v is c for c, _ in MUTABLE_DEFAULTS):
                            MUTABLE_DEFAULTS.append((v, type(v)(v)))
                        new.append(v)
                    f.__defaults__ = tuple(new)
                kd = f.__kwdefaults__
                if kd:
                    for k, v in list(kd.items()):
                        if type(v) is dict:
                            w = _BY_ID.get(id(v)) or SymKeyDict(v)
                            _BY_ID[id(v)] = w
                            w._orig = v
                            kd[k] = w
                        elif type(v) in (list, set, bytearray) and not any(v is c for c, _ in MUTABLE_DEFAULTS):
                            MUTABLE_DEFAULTS.append((v, type(v)(v)))
    return n


ENUM_MEMBERS = []  # (member, snapshot of its instance dict): enum members are process-wide singletons


def install_enums():
    """what the code under verification stores ON an enumeration member (a singleton shared by every call and every path) is
    put back at the start of each path, like the other shared state"""
    for name, mod in list(sys.modules.items()):
        if mod is None or not name.startswith("okdmr.dmrlib") or ".tests" in name:
            continue
        for v in list(vars(mod).values()):
            if isinstance(v, type) and issubclass(v, enum.Enum) and getattr(v, "__module__", None) == name:
                for m in v:
                    if not any(m is x for x, _ in ENUM_MEMBERS):
                        ENUM_MEMBERS.append((m, dict(vars(m))))
    return len(ENUM_MEMBERS)


def reset_enums():
    for m, snap in ENUM_MEMBERS:
        d = vars(m)
        if len(d) != len(snap) or any(k not in snap or d[k] is not snap[k] for k in d):
            for k in [k for k in d if k not in snap]:
                try:
                    object.__delattr__(m, k)
                except Exception:
                    d.pop(k, None)
            for k, val in snap.items():
                if d.get(k, _MISSING) is not val:
                    d[k] = val


def reset_all():
    for d in ALL:
        d.reset()
    reset_bitarrays()
    reset_enums()
    for c, snap in MUTABLE_DEFAULTS:
        if c != snap:
            if isinstance(c, list):
                c[:] = snap
            elif isinstance(c, bytearray):
                c[:] = snap
            else:
                c.clear()
                c.update(snap)
