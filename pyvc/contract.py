"""Contracts: registration, symbolic verification of one (contract, shape) job, native replay.

A *contract* is a Python function ``c(vc, **shape)`` attached to one real function of the repository (its
``target``).  The shape arguments are the concrete-shape part of the precondition, ``vc.bits / vc.uint / ...`` create the
(symbolic) contents, ``vc.assume`` states the remaining precondition, the body calls the REAL target, and every
``vc.prove(clause, cond)`` is one named post-condition / frame / lemma clause.  The very same text is executed

* symbolically (``SymVC``): along every feasible path, each ``prove`` becomes an obligation instance for a back end;
* natively (``NativeVC``): in a fresh CPython without any model, on the witness of a refuted obligation (replay) or on
  random contents (CPython cross-check / bounded stand-in).

Callee contracts are used through *stubs*: ``@stub(name, target, provided_by=<contract>)`` registers what a caller sees
instead of the callee's body; a contract lists the stubs it relies on and the runner (a) installs them for the job,
(b) counts their evaluations, (c) insists that the providing contract is discharged in the same run.
"""
import importlib
import random
import time
import traceback

REGISTRY = {}
STUBS = {}


def contract(name, target, properties, stubs=(), canary=False, bounded=False, note=""):
    def deco(fn):
        fn.cname = name
        fn.target = target
        fn.properties = list(properties)
        fn.stubs = list(stubs)
        fn.canary = canary  # a deliberately wrong clause: must be refuted and replayed
        fn.bounded = bounded  # native-only (bounded stand-in): never counted as proved
        fn.note = note
        if not hasattr(fn, "shapes"):
            fn.shapes = lambda tier: [dict()]
        REGISTRY[name] = fn
        return fn

    return deco


def stub(name, target, provided_by):
    """target: 'module:Class.attr' or 'module:attr'.  provided_by: name(s) of the contract(s) that discharge it."""

    def deco(fn):
        STUBS[name] = dict(name=name, target=target, fn=fn, provided_by=[provided_by] if isinstance(provided_by, str) else list(provided_by))
        return fn

    return deco


def resolve_target(target):
    mod, _, qual = target.partition(":")
    m = importlib.import_module(mod)
    obj = m
    parent = None
    for part in qual.split("."):
        parent = obj
        obj = getattr(obj, part)
    return m, parent, qual.split(".")[-1], obj


class PathEnd(Exception):
    """precondition does not hold on this path"""


CURRENT_VC = None


def current_vc():
    """the verification context of the path being explored (for stubs that need fresh atoms / ghost records)"""
    return CURRENT_VC


class _StubCtx:
    def __init__(self, names):
        self.names = names
        self.saved = []
        self.counts = {}

    def __enter__(self):
        for n in self.names:
            s = STUBS[n]
            m, parent, attr, obj = resolve_target(s["target"])
            raw = parent.__dict__[attr] if hasattr(parent, "__dict__") and attr in parent.__dict__ else obj
            self.saved.append((parent, attr, raw))
            self.counts[n] = 0

            def wrapper(*a, __n=n, __f=s["fn"], **k):
                self.counts[__n] += 1
                return __f(*a, **k)

            if isinstance(raw, staticmethod):
                new = staticmethod(wrapper)
            elif isinstance(raw, classmethod):
                new = classmethod(wrapper)
            else:
                new = wrapper
            setattr(parent, attr, new)
        return self

    def __exit__(self, *a):
        for parent, attr, raw in reversed(self.saved):
            setattr(parent, attr, raw)
        return False


# ----------------------------------------------------------------------------- symbolic mode
class SymVC:
    mode = "symbolic"

    def __init__(self, cname, shape):
        self.cname, self.shape = cname, shape
        self.inputs = {}  # name -> symbolic value (for witness extraction)
        self.log = []  # (clause, backend, seconds)
        self.refuted = []  # (clause, witness)
        self.undecided = []
        self.havoc = 0
        self.ghost = {}  # per-path ghost records of stubs (e.g. encoder outputs seen so far)

    # ---- inputs
    def _reg(self, name, v):
        if name in self.inputs:
            raise RuntimeError("duplicate input name " + name)
        self.inputs[name] = v
        return v

    def bits(self, n, name, endian="big"):
        from . import api

        return self._reg(name, api.bits(n, name, endian))

    def uint(self, nbits, name):
        from . import api

        return self._reg(name, api.uint(nbits, name))

    def bit(self, name):
        from .values import fresh_bit

        return self._reg(name, fresh_bit(name))

    def flag(self, name):
        """a Python bool-like input"""
        return self.bit(name)

    def bytes_(self, n, name):
        from . import api

        return self._reg(name, api.sbytes(n, name))

    def pick(self, name, values, width):
        """an int input restricted to the given values (precondition)"""
        v = self.uint(width, name)
        self.assume(self.or_(*[self.eq(v, x) for x in values]))
        return v

    def havoc_bits(self, n, endian="big"):
        """fresh unconstrained bits that are NOT inputs: the result of an over-approximating callee contract.  A refutation
        whose counter-model needs particular values of them cannot be replayed and is reported as undecided."""
        from .values import fresh_bit, SBits

        self.havoc += 1
        return SBits.of([fresh_bit("havoc%d_%d" % (self.havoc, i)) for i in range(n)], endian)

    def nat(self, name, lo=0, bits=6, hi=None):
        """integer >= lo (<= hi if given): a word-level z3 Int variable (bits: spread of the native random draw only)"""
        from .zint import SZInt

        return self._reg(name, SZInt.fresh(name, lo, hi))

    # ---- helpers that differ between the modes
    def mkbits(self, bits, endian="big"):
        from .values import SBits

        return SBits.of(list(bits), endian)

    def val(self, x):
        from .sfun import SFun

        if isinstance(x, SFun):
            return x.to_sint()
        return x

    def bitlist(self, x, width, msb_first=True):
        """bits of an int-like"""
        from .values import SInt

        v = SInt.lift(x)
        b = [v.bit(i) for i in range(width)]
        return b[::-1] if msb_first else b

    def from_bits(self, bits, msb_first=True):
        from .values import SInt

        b = list(bits)
        return SInt(b[::-1] if msb_first else b).n()

    def ite(self, c, a, b, width):
        from .values import SInt, band, bxor

        a, b = SInt.lift(a), SInt.lift(b)
        return SInt([bxor(b.bit(i), band(c, bxor(a.bit(i), b.bit(i)))) for i in range(width)]).n()

    # ---- logic
    def eq(self, a, b):
        from . import api

        return api.eq(a, b)

    def _b(self, x):
        from .values import SBit, tobit
        from .sfun import SFun

        if isinstance(x, SBit):
            return x
        if isinstance(x, SFun):
            return x.to_bit()
        return 1 if x else 0

    def not_(self, a):
        from .values import bnot

        return bnot(self._b(a))

    def and_(self, *xs):
        from .values import ball

        return ball([self._b(x) for x in xs])

    def or_(self, *xs):
        from .values import ball, bnot

        return bnot(ball([bnot(self._b(x)) for x in xs]))

    def implies(self, a, b):
        return self.or_(self.not_(a), b)

    def iff(self, a, b):
        from .values import beq

        return beq(self._b(a), self._b(b))

    def assume(self, cond):
        if not bool(self._b(cond)):  # forks / decides
            raise PathEnd()

    def fork(self, cond):
        """case split of the contract text itself (each case gets its own obligation names)"""
        return bool(self._b(cond))

    def linear_map(self, outputs, inputs):
        """outputs (bit-likes) as GF(2)-affine functions of the input bits (fresh atoms): returns (rows, consts) with
        rows[i] = bitmask over inputs (bit j set: output i depends on input j).  Undecided if some output is not affine
        in exactly these inputs - the lemma that uses the matrix then does not apply."""
        from . import core
        from .values import bitpoly

        pos = {}
        for j, x in enumerate(inputs):
            p = bitpoly(x)
            (m,) = p
            (a,) = m
            pos[a] = j
        rows, consts = [], []
        for o in outputs:
            p = core.norm_under_pc(bitpoly(o))
            if not core.pis_affine(p):
                raise core.Undecided("output is not affine in the inputs")
            r = 0
            c = 0
            for m in p:
                if not m:
                    c = 1
                else:
                    (a,) = m
                    if a not in pos:
                        raise core.Undecided("output depends on an atom outside the inputs")
                    r |= 1 << pos[a]
            rows.append(r)
            consts.append(c)
        return rows, consts

    def prove(self, clause, cond, note=None):
        from . import api, core

        t0 = time.time()
        try:
            be = api.prove(self._b(cond), clause)
            self.log.append((clause, be, time.time() - t0))
        except api.Refuted as e:
            w = self.witness(e.env)
            if note is not None:
                w["__note__"] = note
            self.refuted.append((clause, w))
            self.log.append((clause, "REFUTED", time.time() - t0))
        except core.Undecided as e:
            core.unpoison(e)
            self.undecided.append(f"{clause}: {e}")
            self.log.append((clause, "UNDECIDED", time.time() - t0))

    def witness(self, env):
        from . import api

        env = dict(env)
        w = {k: _jsonable(api.concretise(v, env)) for k, v in self.inputs.items()}
        if self.havoc:
            w["__havoc__"] = True
        r = getattr(self, "realise", None)
        if r is not None:
            # a contract whose proof ran on an abstract intermediate state (ghost) turns the counter-model of that state into
            # inputs that produce it; None: no such inputs found - the refutation is then reported without a failing input
            w2 = r(dict(w))
            if w2 is None:
                w["__havoc__"] = True
            else:
                w = w2
        return w

    def path_model(self):
        """a model of the current path condition (for exceptions that the contract does not allow)"""
        from . import core

        st, env = core.solve(list(core.C.pc_other), want_model=True)
        if st != "sat":
            return None
        full = dict(env)
        for piv, rhs in core.C.subst.items():
            full[piv] = core.peval(rhs, full)
        return self.witness(full)


def _jsonable(v):
    from bitarray import bitarray

    if isinstance(v, bitarray):
        return {"bits": v.to01(), "endian": v.endian}
    if isinstance(v, (bytes, bytearray)):
        return {"hex": bytes(v).hex()}
    return v


def verify_job(cname, shape, max_paths=20000):
    """explore one (contract, shape); returns a plain dict (picklable)"""
    from . import core

    fn = REGISTRY[cname]
    out = dict(contract=cname, shape=_shape_repr(shape), paths=0, clauses={}, refuted=[], undecided=[], exceptions=[], stub_calls={}, pre_false=0, t=0.0)
    t0 = time.time()
    vcs = []

    def once():
        global CURRENT_VC
        vc = SymVC(cname, shape)
        CURRENT_VC = vc
        vcs.append(vc)
        from . import shadows, symdict

        del shadows.TRIPPED[:]
        symdict.reset_all()
        with _StubCtx(fn.stubs) as sc:
            vc.stubctx = sc
            try:
                fn(vc, **shape)
            except PathEnd:
                return "pre-false"
            finally:
                if "C19" in fn.properties:  # codec entry points: parsing must not consult the clock or a random source
                    vc.prove("consults_no_wall_clock_time_or_randomness", not shadows.TRIPPED, note=list(shadows.TRIPPED[:3]))
        return "done"

    try:
        results = core.explore(once, max_paths=max_paths, on_exception=lambda: vcs[-1].path_model())
    except (core.Undecided, core.OutOfReach) as e:
        tb = traceback.extract_tb(e.__traceback__)
        where = next((f"{f.filename.split('/')[-1]}:{f.lineno}" for f in reversed(tb) if "/pyvc/" not in f.filename), "?")
        out["undecided"].append(f"{type(e).__name__}: {e} @{where}")
        results = []
    except core.EngineError as e:
        out["undecided"].append(f"EngineError: {e}")
        results = []
    out["paths"] = len(results)
    for dec, res in results[len(vcs):]:  # (budget markers: no path was started for them)
        if res[0] == "undecided":
            out["undecided"].append(f"{type(res[1]).__name__}: {res[1]}")
    for (dec, res), vc in zip(results, vcs):
        if res[0] == "undecided":
            e = res[1]
            tb = traceback.extract_tb(e.__traceback__)
            where = next((f"{f.filename.split('/')[-1]}:{f.lineno}" for f in reversed(tb) if "/pyvc/" not in f.filename), "?")
            out["undecided"].append(f"{type(e).__name__}: {e} @{where}")
        elif res[0] == "exc":
            e, wit = res[1], res[2]
            tb = traceback.extract_tb(e.__traceback__)
            where = next((f"{f.filename.split('/okdmr/')[-1]}:{f.lineno}" for f in reversed(tb) if "/okdmr/" in f.filename), None)
            if where is None:
                where = next((f"{f.filename.split('/')[-1]}:{f.lineno}" for f in reversed(tb)), "?")
            out["exceptions"].append(dict(exc=f"{type(e).__name__}", where=where, msg=str(e)[:120], witness=wit))
        elif res[1] == "pre-false":
            out["pre_false"] += 1
        for n, k in getattr(vc, "stubctx", _StubCtx([])).counts.items():
            out["stub_calls"][n] = out["stub_calls"].get(n, 0) + k
        for clause, be, dt in vc.log:
            c = out["clauses"].setdefault(clause, dict(instances=0, by_backend={}, seconds=0.0))
            c["instances"] += 1
            c["by_backend"][be] = c["by_backend"].get(be, 0) + 1
            c["seconds"] += dt
        for clause, w in vc.refuted:
            out["refuted"].append(dict(clause=clause, witness=w))
        for u in vc.undecided:
            out["undecided"].append(u)
    out["t"] = time.time() - t0
    out["stats"] = dict(core.C.stats)
    return out


def _shape_repr(shape):
    return {k: (list(v) if isinstance(v, tuple) else v) for k, v in shape.items()}


def shape_from_json(shape):
    return {k: (tuple(tuple(x) if isinstance(x, list) else x for x in v) if isinstance(v, list) else v) for k, v in shape.items()}


# ----------------------------------------------------------------------------- native mode (replay / random cross-check)
class NativeVC:
    mode = "native"

    def __init__(self, witness=None, rnd=None):
        self.w = witness or {}
        self.rnd = rnd  # random.Random: inputs absent from the witness are drawn at random
        self.failed = []
        self.checked = []
        self.drawn = {}
        self.notes = {}

    def _draw(self, name, nbits):
        if self.rnd is None:
            return 0
        mode = self.rnd.random()
        if mode < 0.08:
            v = 0
        elif mode < 0.16:
            v = (1 << nbits) - 1
        elif mode < 0.3:
            v = self.rnd.getrandbits(nbits) & self.rnd.getrandbits(nbits) & self.rnd.getrandbits(nbits) if nbits else 0
        else:
            v = self.rnd.getrandbits(nbits) if nbits else 0
        return v

    def bits(self, n, name, endian="big"):
        from bitarray import bitarray

        d = self.w.get(name)  # inputs created after the failing clause are not in the witness: any value will do
        if d:
            return bitarray(d["bits"], endian=d["endian"])
        v = self._draw(name, n)
        r = bitarray([(v >> i) & 1 for i in range(n)], endian=endian)
        self.drawn[name] = {"bits": r.to01(), "endian": endian}
        return r

    def uint(self, nbits, name):
        if name in self.w:
            return int(self.w[name])
        v = self._draw(name, nbits)
        self.drawn[name] = v
        return v

    def bit(self, name):
        return self.uint(1, name)

    def flag(self, name):
        return bool(self.uint(1, name))

    def pick(self, name, values, width):
        values = list(values)
        if name in self.w:
            return int(self.w[name])
        v = self.rnd.choice(values) if self.rnd else values[0]
        self.drawn[name] = v
        return v

    def nat(self, name, lo=0, bits=6, hi=None):
        if name in self.w:
            return int(self.w[name])
        v = lo + (self._draw(name, bits) if self.rnd else 0)
        if hi is not None:
            v = min(v, hi)
        self.drawn[name] = v
        return v

    def bytes_(self, n, name):
        d = self.w.get(name)
        if d:
            return bytes.fromhex(d["hex"])
        v = self._draw(name, 8 * n)
        r = v.to_bytes(n, "big")
        self.drawn[name] = {"hex": r.hex()}
        return r

    def mkbits(self, bits, endian="big"):
        from bitarray import bitarray

        return bitarray([int(b) for b in bits], endian=endian)

    def val(self, x):
        return x

    def bitlist(self, x, width, msb_first=True):
        b = [(int(x) >> i) & 1 for i in range(width)]
        return b[::-1] if msb_first else b

    def from_bits(self, bits, msb_first=True):
        b = [int(x) for x in bits]
        if msb_first:
            b = b[::-1]
        return sum(x << i for i, x in enumerate(b))

    def ite(self, c, a, b, width):
        return a if c else b

    def eq(self, a, b):
        return bool(a == b)

    def not_(self, a):
        return not a

    def and_(self, *xs):
        return all(bool(x) for x in xs)

    def or_(self, *xs):
        return any(bool(x) for x in xs)

    def implies(self, a, b):
        return (not a) or bool(b)

    def iff(self, a, b):
        return bool(a) == bool(b)

    def assume(self, cond):
        if not cond:
            raise PathEnd()

    def fork(self, cond):
        return bool(cond)

    def prove(self, clause, cond, note=None):
        self.checked.append(clause)
        if not cond:
            self.failed.append(clause)
            if note is not None:
                self.notes[clause] = note

    def path_model(self):
        return None


def replay(cname, shape, witness, rnd=None):
    """run in a fresh native interpreter: no shadows installed"""
    fn = REGISTRY[cname]
    vc = NativeVC(witness, rnd)
    exc = None
    where = None
    try:
        fn(vc, **shape)
    except PathEnd:
        exc = "precondition false"
    except Exception as e:  # the real code raised
        exc = f"{type(e).__name__}"
        tb = traceback.extract_tb(e.__traceback__)
        where = next((f"{f.filename.split('/okdmr/')[-1]}:{f.lineno}" for f in reversed(tb) if "/okdmr/" in f.filename), None)
        if where is None:
            where = next((f"{f.filename.split('/')[-1]}:{f.lineno}" for f in reversed(tb)), "?")
        exc = dict(exc=exc, where=where, msg=str(e)[:200])
    return dict(failed=vc.failed, checked=vc.checked, exception=exc, drawn=vc.drawn, notes=vc.notes)
