import time
import os

from . import core
from .core import C, ONE, norm_under_pc, norm_deep, pnot, relevant_pc, solve, peval
from .values import SBit, SBits, SBytes, SInt, SLin, SNeg, fresh_bit, ball, beq, tobit, bitpoly, as_sint, is_sym

LOG = []  # (name, backend, seconds)


class Refuted(Exception):
    def __init__(self, name, env):
        super().__init__(name)
        self.name = name
        self.env = env


def bits(n, name="x", endian="big"):
    return SBits.of([fresh_bit(f"{name}{i}") for i in range(n)], endian)


def uint(nbits, name="v"):
    return SInt([fresh_bit(f"{name}{i}") for i in range(nbits)]).n()


def sbytes(n, name="b"):
    return SBytes([uint(8, f"{name}{i}_") for i in range(n)])


def eq(a, b):
    """symbolic equality -> 0/1/SBit for the value kinds we know"""
    if type(a).__name__ == "SByteArray":  # (a bytearray equals the bytes with the same octets)
        a = SBytes(list(a.v)).n()
    if type(b).__name__ == "SByteArray":
        b = SBytes(list(b.v)).n()
    if isinstance(a, (SBits,)) or isinstance(b, SBits):
        r = (a == b) if isinstance(a, SBits) else (b == a)
    elif isinstance(a, (SBytes,)) or isinstance(b, SBytes):
        r = (a == b) if isinstance(a, SBytes) else (b == a)
    elif isinstance(a, SNeg) or isinstance(b, SNeg):
        r = (a == b) if isinstance(a, SNeg) else (b == a)
    elif isinstance(a, (SInt, SLin, SBit)) or isinstance(b, (SInt, SLin, SBit)):
        a2, b2 = as_sint(a), as_sint(b)
        r = (SInt.lift(a2) == b2)
    else:
        r = a == b
    if isinstance(r, SBit):
        return r
    return 1 if r else 0


def complete_model(env, rel):
    """extend a model of the relevant constraints to a model of the whole path condition (the remaining constraints
    have disjoint support by construction of relevant_pc) and through the affine substitutions"""
    rest = [q for q in C.pc_other if q not in rel]
    full = dict(env)
    if rest:
        st, env2 = solve(rest, want_model=True)
        if st == "sat" and env2:
            for a, v in env2.items():
                full.setdefault(a, v)
    for piv, rhs in C.subst.items():
        full[piv] = peval(rhs, full)
    return full


def prove(cond, name):
    """obligation: cond holds on the current path"""
    t0 = time.time()
    p = bitpoly(cond)
    if p is None:
        p = ONE if cond else frozenset()
    p = norm_deep(p)
    if p == ONE:
        LOG.append((name, "gf2", time.time() - t0))
        return "gf2"
    rel = relevant_pc(p)
    # back end 0: cheap counter-model search by random evaluation (sound for refutation: models are replayed natively)
    import random
    from .core import base_support, peval as _pe, Undecided as core_Undecided, unpoison
    rnd = random.Random(len(C.pc) * 7919 + len(p))
    sup = [a for a in base_support(rel + [p], closed=True) if isinstance(a, int)]
    free = [a for a in sup if a not in C.subst]
    for _ in range(48):
        env = {a: rnd.getrandbits(1) for a in free}
        try:
            for piv, rhs in C.subst.items():
                env[piv] = _pe(rhs, env)
            if all(_pe(q, env) for q in rel) and not _pe(p, env):
                # the random point must be a point of the WHOLE path condition, with every defined atom recomputed from its
                # definition, before it counts as a counter-model (a clause that holds only modulo facts outside `rel` is
                # left to the decision procedures below)
                full = complete_model({a: env[a] for a in free}, rel)
                chk = {a: v for a, v in full.items() if not isinstance(a, int) or (a not in C.gates and a not in C.subst)}
                try:
                    genuine = not _pe(p, chk) and all(_pe(q, chk) for q in C.pc_other)
                except KeyError:
                    genuine = False
                if not genuine:
                    continue
                LOG.append((name, "REFUTED-random", time.time() - t0))
                raise Refuted(name, full)
        except KeyError:
            break
        except core_Undecided as e:  # (integer-valued atoms: no random search)
            unpoison(e)
            break
    before = dict(C.stats)
    # first with the facts that share support with the clause directly: `unsat` from fewer facts is `unsat` (and usually
    # stays within the enumeration back end); only a model has to be sought again under the closed set of facts
    rel0 = relevant_pc(p, closed=False)
    st, env = ("sat", None) if len(rel0) == len(rel) else solve(rel0 + [pnot(p)], want_model=False)
    if st != "unsat":
        st, env = solve(rel + [pnot(p)], want_model=True)
    be = "z3" if C.stats["z3"] > before["z3"] else ("enum" if C.stats["enum"] > before["enum"] else "gf2-xor")
    if st == "unsat":
        LOG.append((name, be, time.time() - t0))
        return be
    full = complete_model(env, rel)
    # a counter-model must make the clause false and every relevant constraint true when evaluated point-wise; a model that
    # does not is a defect of the back end that produced it: the obligation is undecided, never refuted on its word
    try:
        # gate atoms and eliminated atoms are recomputed from their definitions over the input atoms of the model
        chk = {a: v for a, v in full.items() if not isinstance(a, int) or (a not in C.gates and a not in C.subst)}
        ok_model = not _pe(p, chk) and all(_pe(q, chk) for q in rel)
        if not ok_model and os.environ.get("PYVC_DEBUG"):
            print("  differing atoms", [(a, full[a], chk[a], C.gates.get(a, ("subst",))[0]) for a in chk if a in full and full[a] != chk[a]][:8])
    except core_Undecided as e:
        unpoison(e)
        ok_model = True  # (integer-valued atoms without a native evaluator: the native replay is the judge)
    if ok_model and len(rel) < len(C.pc_other):
        # the completed model has to satisfy the WHOLE path condition, not only the facts that share support with the clause:
        # the other facts can bear on it through the solved forms of eliminated atoms.  If it does not, ask again with every fact.
        try:
            whole = all(_pe(q, chk) for q in C.pc_other)
        except core_Undecided as e:
            unpoison(e)
            whole = True
        if not whole:
            st2, env2 = solve(list(C.pc_other) + [pnot(p)], want_model=True)
            if st2 == "unsat":
                LOG.append((name, be, time.time() - t0))
                return be
            full = complete_model(env2, list(C.pc_other))
            chk = {a: v for a, v in full.items() if not isinstance(a, int) or (a not in C.gates and a not in C.subst)}
            try:
                ok_model = not _pe(p, chk) and all(_pe(q, chk) for q in C.pc_other)
            except core_Undecided as e:
                unpoison(e)
                ok_model = True
    if not ok_model:
        if os.environ.get("PYVC_DEBUG"):
            print("INCONSISTENT MODEL from back end", be, "clause", name, "clause value", _pe(p, dict(full)), "violated constraints", [i for i, q in enumerate(rel) if not _pe(q, dict(full))][:5], "of", len(rel))
        raise core_Undecided("back end %s returned a model that does not satisfy the query (%s)" % (be, name))
    raise Refuted(name, full)


def concretise(x, env):
    """evaluate a symbolic value under a model"""
    if isinstance(x, SBit):
        return peval(x.p, env)
    if isinstance(x, SInt):
        return sum((concretise(b, env) if isinstance(b, SBit) else b) << i for i, b in enumerate(x.bits))
    if isinstance(x, SLin):
        return concretise(x.to_sint(), env)
    if isinstance(x, SNeg):
        return -concretise(x.mag, env)
    if isinstance(x, SBits):
        from bitarray import bitarray

        return bitarray([concretise(b, env) if isinstance(b, SBit) else b for b in x.b], endian=x.endian)
    if isinstance(x, SBytes):
        return bytes(concretise(v, env) if is_sym(v) else v for v in x.v)
    if type(x).__name__ == "SZInt":
        m = env.get("__z3model__")
        if m is None:
            return 0
        import z3 as _z3

        sub = [(_z3.Bool(f"a{b}"), _z3.BoolVal(bool(env[b]))) for b in list(env) if isinstance(b, int) and b not in C.gates]
        return m.eval(_z3.substitute(x.t, *sub) if sub else x.t, model_completion=True).as_long()
    return x
