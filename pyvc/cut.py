"""mechanical loop cutting: rewrite the n-th `for` of a function into init / one iteration / post"""
import ast, inspect, textwrap, types


class PathDone(BaseException):
    pass


class LoopCtl:
    """per-run controller; mode in {'init', ('iter', k), 'post'}; state(k, loc, it) -> tuple of carried values
    and may set heap fields through loc; check(k, loc, carried) -> raises on failed obligation"""

    def __init__(self, mode, state, check):
        self.mode, self.state, self.check = mode, state, check
        self.n = None

    def init(self, loc, carried):
        if self.mode == "init":
            self.check(0, loc, carried)
            raise PathDone()

    def indices(self, n):
        self.n = n
        if isinstance(self.mode, tuple):
            return [self.mode[1]]
        return []

    def enter(self, k, it, loc):
        return self.state(k, loc, it)

    def preserved(self, k, loc, carried):
        self.check(k, loc, carried)
        raise PathDone()

    def leave(self, n, it, loc, carried):
        if self.mode == "post":
            return self.state(n, loc, it)
        return carried


def cut(fn, ordinal, carried, ctl_name="__vc"):
    src = textwrap.dedent(inspect.getsource(fn))
    mod = ast.parse(src)
    fdef = mod.body[0]
    fdef.decorator_list = []
    loops = [n for n in ast.walk(fdef) if isinstance(n, ast.For)]
    # ast.walk is BFS; order loops by source position
    loops.sort(key=lambda n: (n.lineno, n.col_offset))
    target = loops[ordinal]
    for n in ast.walk(target):
        if isinstance(n, (ast.Break, ast.Continue, ast.Return)) or (isinstance(n, ast.For) and n.orelse):
            raise ValueError("loop not admissible for cutting")
    names = ", ".join(carried)
    tup = f"({names},)" if carried else "()"
    tmpl = f"""
__it = list(__ITER__)
{ctl_name}.init(locals(), {tup})
for __k in {ctl_name}.indices(len(__it)):
    {tup if carried else '__none'} = {ctl_name}.enter(__k, __it, locals())
    __TARGET__ = __it[__k]
    pass
    {ctl_name}.preserved(__k + 1, locals(), {tup})
{tup if carried else '__none'} = {ctl_name}.leave(len(__it), __it, locals(), {tup})
"""
    new = ast.parse(textwrap.dedent(tmpl)).body
    # fill in ITER, TARGET, BODY
    new[0].value.args[0] = target.iter
    forn = new[2]
    forn.body[1].targets[0] = target.target
    forn.body[2:3] = target.body

    class R(ast.NodeTransformer):
        def visit_For(self, node):
            if node is target:
                return new
            return self.generic_visit(node)

    R().visit(fdef)
    ast.fix_missing_locations(mod)
    ns = {}
    code = compile(mod, inspect.getsourcefile(fn) or "<cut>", "exec")
    exec(code, fn.__globals__, ns)
    return ns[fdef.name], ast.unparse(fdef)
