"""mechanical loop cutting: rewrite the n-th `for` of a function into init / one iteration / post.

The function's source is re-read with inspect + ast on every run and exactly one `for` statement is replaced by

    __it = list(ITER); __vc.init(locals(), (<carried>,))          # obligation: state_0 holds at loop entry
    for __k in __vc.indices(len(__it)):                           # the controller picks one k per run (or none)
        (<carried>,) = __vc.enter(__k, __it, locals())            # havoc the loop-carried state to state_k
        TARGET = __it[__k]; BODY
        __vc.preserved(__k + 1, locals(), (<carried>,))           # obligation: state_{k+1}; the path ends here
    (<carried>,) = __vc.leave(len(__it), __it, locals(), (<carried>,))   # "post" run: continue from state_n

Nothing else of the function changes; it is compiled in the function's own module namespace.  Admitted only for loops
without break / continue / return / else (checked on the AST).
"""
import ast, inspect, textwrap, hashlib


class PathDone(BaseException):
    pass


class LoopCtl:
    """mode in {'init', ('iter', k), 'post'}; state(k, loc, it) -> tuple of carried values (may set heap fields through
    loc); check(k, loc, carried) states the invariant as obligations"""

    def __init__(self, mode, state, check):
        self.mode, self.state, self.check = mode, state, check
        self.n = None
        self.reached = False
        self.missing = False

    def init(self, loc, carried):
        self.reached = True
        if self.mode == "init":
            self.check(0, loc, carried)
            raise PathDone()

    def indices(self, n):
        self.n = n
        if isinstance(self.mode, tuple):
            if not 0 <= self.mode[1] < n:
                self.missing = True  # the contract expects an iteration the loop does not have
                raise PathDone()
            return [self.mode[1]]
        return []

    def enter(self, k, it, loc):
        return self.state(k, loc, it)

    def preserved(self, k, loc, carried):
        self.check(k, loc, carried)
        raise PathDone()

    def leave(self, n, it, loc, carried):
        if self.mode == "post":
            return self.state(n, loc, it)
        return carried


def cut(fn, ordinal, carried, ctl_name="__vc"):
    fn = getattr(fn, "__func__", fn)
    src = textwrap.dedent(inspect.getsource(fn))
    mod = ast.parse(src)
    fdef = mod.body[0]
    fdef.decorator_list = []
    from .core import Undecided

    loops = [n for n in ast.walk(fdef) if isinstance(n, ast.For)]
    loops.sort(key=lambda n: (n.lineno, n.col_offset))
    # a contract that cuts a loop is tied to the SHAPE of the function (which loop, which loop-carried variables).  When the
    # function no longer has that shape the proof does not apply - that is 'undecided' (the runner then falls back to native
    # evaluation of the same contract), never a violation: a rewrite of the loop may be perfectly harmless
    if ordinal >= len(loops):
        raise Undecided("loop-cut contract no longer matches %s: no `for` loop #%d" % (fdef.name, ordinal))
    target = loops[ordinal]
    for n in ast.walk(target):
        if isinstance(n, (ast.Break, ast.Continue, ast.Return)) or (isinstance(n, ast.For) and n.orelse):
            raise Undecided("loop-cut contract no longer matches %s: the loop has break / continue / return" % fdef.name)
    bound = {a.arg for a in fdef.args.args + fdef.args.kwonlyargs} | {n.id for n in ast.walk(fdef) if isinstance(n, ast.Name) and isinstance(n.ctx, ast.Store)}
    if any(c not in bound for c in carried):
        # renamed accumulator?  If the loop body assigns exactly as many plain names as the contract carries (the loop target
        # aside), those are the loop-carried variables under their new names; anything less clear-cut is undecided
        tnames = {n.id for n in ast.walk(target.target) if isinstance(n, ast.Name)}
        assigned = []
        for st in target.body:
            for n in ast.walk(st):
                if isinstance(n, ast.Name) and isinstance(n.ctx, ast.Store) and n.id not in tnames and n.id not in assigned:
                    assigned.append(n.id)
        if len(assigned) == len(carried):
            carried = assigned
        else:
            missing = [c for c in carried if c not in bound]
            raise Undecided("loop-cut contract no longer matches %s: no variable `%s`" % (fdef.name, missing[0]))
    # soundness of the cut: every variable the loop really carries from one iteration to the next (or out of the loop) must be
    # part of the invariant's state.  Carried = bound to a name inside the body AND read where this iteration may not have
    # bound it yet (before its first unconditional top-level assignment in the body), or read after the loop.
    tnames = {n.id for n in ast.walk(target.target) if isinstance(n, ast.Name)}
    comp_bound = {n.id for st in target.body for c in ast.walk(st) if isinstance(c, ast.comprehension) for n in ast.walk(c.target) if isinstance(n, ast.Name)}
    stored = {n.id for st in target.body for n in ast.walk(st) if isinstance(n, ast.Name) and isinstance(n.ctx, ast.Store)} - tnames - comp_bound
    really = set()

    def loads(expr, definitely):
        if expr is None:
            return
        for n in ast.walk(expr):
            if isinstance(n, ast.Name) and isinstance(n.ctx, ast.Load) and n.id in stored and n.id not in definitely:
                really.add(n.id)

    def scan(stmts, definitely):
        """definite assignment, statement by statement; what a nested block binds is conditional for the code after it"""
        for st in stmts:
            if isinstance(st, (ast.For, ast.AsyncFor)):
                loads(st.iter, definitely)
                inner = set(definitely) | {n.id for n in ast.walk(st.target) if isinstance(n, ast.Name)}
                scan(st.body, inner)
                scan(st.orelse, set(definitely))
            elif isinstance(st, ast.While):
                loads(st.test, definitely)
                scan(st.body, set(definitely))
                scan(st.orelse, set(definitely))
            elif isinstance(st, ast.If):
                loads(st.test, definitely)
                scan(st.body, set(definitely))
                scan(st.orelse, set(definitely))
            elif isinstance(st, (ast.With, ast.AsyncWith)):
                for it in st.items:
                    loads(it.context_expr, definitely)
                scan(st.body, set(definitely))
            elif isinstance(st, ast.Try):
                scan(st.body, set(definitely))
                for h in st.handlers:
                    scan(h.body, set(definitely))
                scan(st.orelse, set(definitely))
                scan(st.finalbody, set(definitely))
            elif isinstance(st, (ast.Assign, ast.AnnAssign)):
                loads(st.value, definitely)
                for t in (st.targets if isinstance(st, ast.Assign) else [st.target]):
                    if isinstance(t, ast.Name):
                        if st.value is not None:
                            definitely.add(t.id)
                    else:
                        loads(t, definitely)
            elif isinstance(st, ast.AugAssign):
                loads(st.value, definitely)
                if isinstance(st.target, ast.Name):
                    if st.target.id in stored and st.target.id not in definitely:
                        really.add(st.target.id)
                else:
                    loads(st.target, definitely)
            else:
                loads(st, definitely)

    scan(target.body, set(tnames))
    end = getattr(target, "end_lineno", target.lineno)
    for n in ast.walk(fdef):
        if isinstance(n, ast.Name) and isinstance(n.ctx, ast.Load) and n.id in stored and n.lineno > end:
            really.add(n.id)
    extra = sorted(really - set(carried))
    if extra:
        raise Undecided("loop-cut contract no longer matches %s: the loop carries `%s`, which the invariant does not mention" % (fdef.name, extra[0]))
    names = ", ".join(carried)
    tup = f"({names},)" if carried else "()"
    lhs = tup if carried else "__none"
    tmpl = f"""
__it = list(__ITER__)
{ctl_name}.init(locals(), {tup})
for __k in {ctl_name}.indices(len(__it)):
    {lhs} = {ctl_name}.enter(__k, __it, locals())
    __TARGET__ = __it[__k]
    pass
    {ctl_name}.preserved(__k + 1, locals(), {tup})
{lhs} = {ctl_name}.leave(len(__it), __it, locals(), {tup})
"""
    new = ast.parse(textwrap.dedent(tmpl)).body
    new[0].value.args[0] = target.iter
    forn = new[2]
    forn.body[1].targets[0] = target.target
    forn.body[2:3] = target.body

    class R(ast.NodeTransformer):
        def visit_For(self, node):
            if node is target:
                return new
            return self.generic_visit(node)

    R().visit(fdef)
    ast.fix_missing_locations(mod)
    ns = {}
    code = compile(mod, inspect.getsourcefile(fn) or "<cut>", "exec")
    exec(code, fn.__globals__, ns)
    return ns[fdef.name], dict(source_sha256=hashlib.sha256(src.encode()).hexdigest(), loop_ordinal=ordinal, carried=list(carried))


def run_cut(vc, fn, ordinal, carried, phase, state, check, args, kwargs=None):
    """drive one phase of a cut loop.  phase: 'init' | int k | 'post'.  Returns ('post', result) for the post phase,
    ('done', None) when the path ended in init/preserved.  Proves `loop_reached` false if the cut point is never met."""
    newf, info = cut(fn, ordinal, carried)
    mode = phase if phase in ("init", "post") else ("iter", int(phase))
    ctl = LoopCtl(mode, state, check)
    newf.__globals__["__vc"] = ctl
    try:
        r = newf(*args, **(kwargs or {}))
    except PathDone:
        if ctl.missing:
            from .core import Undecided

            raise Undecided("loop-cut contract expects iteration %s, the loop has %s" % (phase, ctl.n))
        return "done", None
    finally:
        newf.__globals__.pop("__vc", None)
    if mode != "post":
        from .core import Undecided

        raise Undecided("loop-cut contract: the function returned without reaching the loop")
    return "post", r
