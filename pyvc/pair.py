"""pair contracts: two calls in one process ("whatever was called before").

A codec contract states what ONE call returns from a fresh state.  `pair(A, B)` registers a contract that runs, on one path
and in one process,

    1. the body of A up to the point where it has called the real code and is about to state its first clause,
    2. the whole body of B - inputs of its own, the call, its clauses -,
    3. the rest of A: its clauses, evaluated AFTER B's calls.

Both bodies draw their own symbolic contents (input and clause names are prefixed `first_call.` / `second_call.`), so the
obligations read: for ALL contents of both calls, the second call returns what its contract says although another call was
made before (no state is carried from call to call: caches, shared registers, tables edited while parsing), and what the
first call returned still satisfies its contract after the second one (no result aliases a buffer that a later call reuses).
With the same text run natively (replay, cross-check) the interleaving is the same, so counter-models replay.

The first body runs in a helper thread that hands control back and forth (only one of the two ever runs); the point of
suspension is the first clause-building call of the contract text made after the contract's target function was entered
(sys.monitoring, local PY_START event on the target's code object; if the target is not a Python function: the first
clause-building call).  Whatever the suspension point, every interleaving is a legal history - the clauses must hold.
"""
import sys
import threading

from .contract import contract, REGISTRY, PathEnd, resolve_target, shape_from_json

GATED = ("eq", "not_", "and_", "or_", "implies", "iff", "prove", "ite", "linear_map")
NAMED_INPUTS = {"bits": 1, "uint": 1, "bit": 0, "flag": 0, "bytes_": 1, "pick": 0, "nat": 0}  # position of the name argument


class _Cancel(BaseException):
    pass


class Interleave:
    def __init__(self, body, target_code=None):
        self.body = body
        self.to_thread = threading.Semaphore(0)
        self.to_main = threading.Semaphore(0)
        self.exc = None
        self.done = False
        self.suspended = False
        self.cancelled = False
        self.entered = target_code is None
        self.code = target_code
        self.depth = 0
        self.thread = None

    # ---- called in the helper thread
    def _run(self):
        try:
            self.body()
        except _Cancel:
            pass
        except BaseException as e:  # noqa: handed to the main thread
            self.exc = e
        finally:
            self.done = True
            self.to_main.release()

    def gate(self):
        if self.suspended or not self.entered or self.depth > 0 or threading.current_thread() is not self.thread:
            return  # (never inside the target call itself: a callee contract evaluated there states clauses too)
        self.suspended = True
        self.to_main.release()
        self.to_thread.acquire()
        if self.cancelled:
            raise _Cancel()

    # ---- called in the main thread
    def start(self):
        mon = getattr(sys, "monitoring", None)
        if self.code is not None and mon is not None:
            tid = mon.COVERAGE_ID
            try:
                mon.use_tool_id(tid, "pyvc-pair")
            except ValueError:
                pass

            def on_start(code, offset):
                if code is self.code:
                    self.entered = True
                    self.depth += 1

            def on_leave(code, offset, value):
                if code is self.code:
                    self.depth -= 1

            mon.register_callback(tid, mon.events.PY_START, on_start)
            mon.register_callback(tid, mon.events.PY_RETURN, on_leave)
            mon.register_callback(tid, mon.events.PY_UNWIND, on_leave)
            try:
                mon.set_local_events(tid, self.code, mon.events.PY_START | mon.events.PY_RETURN)
                mon.set_events(tid, mon.events.PY_UNWIND)  # (unwinding has no per-code-object switch)
            except Exception:
                self.entered = True
                self.depth = 0
        else:
            self.entered = True
        self.thread = threading.Thread(target=self._run, daemon=True)
        self.thread.start()
        self.to_main.acquire()
        self._raise()

    def finish(self):
        if not self.done:
            self.to_thread.release()
            self.to_main.acquire()
        self._raise()

    def cancel(self):
        if not self.done:
            self.cancelled = True
            self.to_thread.release()
            self.thread.join(5)
        mon = getattr(sys, "monitoring", None)
        if self.code is not None and mon is not None:
            try:
                mon.set_local_events(mon.COVERAGE_ID, self.code, 0)
                mon.set_events(mon.COVERAGE_ID, 0)
            except Exception:
                pass

    def _raise(self):
        if self.exc is not None:
            e, self.exc = self.exc, None
            raise e


class CallView:
    """the verification context as one of the two calls sees it: input names and clause names carry the call's prefix"""

    def __init__(self, vc, tag, il=None):
        object.__setattr__(self, "_vc", vc)
        object.__setattr__(self, "_tag", tag)
        object.__setattr__(self, "_il", il)

    @property
    def mode(self):
        return self._vc.mode

    def __getattr__(self, k):
        a = getattr(self._vc, k)
        if k in NAMED_INPUTS:
            pos = NAMED_INPUTS[k]

            def named(*args, **kw):
                args = list(args)
                if "name" in kw:
                    kw["name"] = self._tag + "." + kw["name"]
                else:
                    args[pos] = self._tag + "." + args[pos]
                return a(*args, **kw)

            return named
        if k in GATED:
            def gated(*args, **kw):
                if self._il is not None:
                    self._il.gate()
                if k == "prove":
                    args = (self._tag + "." + args[0],) + tuple(args[1:])
                return a(*args, **kw)

            return gated
        return a

    def __setattr__(self, k, v):
        setattr(self._vc, k, v)


def _code_of(target):
    try:
        obj = resolve_target(target)[3]
    except Exception:
        return None
    obj = getattr(obj, "__func__", obj)
    obj = getattr(obj, "__wrapped__", obj)
    return getattr(obj, "__code__", None)


_STACK = [False]


def pair(first, second=None, shapes=None, pick=3, name=None, properties=None, budget_s=240, max_paths=6000, stubs=None):
    """register the pair contract `second after first` (same contract twice when second is None).
    shapes: tier -> list of (shape of first, shape of second); default: the ordered pairs of `pick` shapes spread over the
    quick list of each contract"""
    second = second or first
    cname = name or (second.cname + ".second_call" if second is first else second.cname + ".after." + first.cname)
    props = list(properties or dict.fromkeys(list(second.properties) + list(first.properties)))
    stubs = list(dict.fromkeys(list(first.stubs) + list(second.stubs))) if stubs is None else list(stubs)

    @contract(cname, second.target, props, stubs=stubs,
              note="two calls in one process: %s, then %s; clauses of the first evaluated after the second call" % (first.cname, second.cname))
    def body(vc, first_shape, second_shape):
        if not _STACK[0]:
            threading.stack_size(256 * 1024 * 1024)
            _STACK[0] = True
        il = Interleave(None, _code_of(first.target))
        a = CallView(vc, "first_call", il)
        b = CallView(vc, "second_call")
        il.body = lambda: first(a, **shape_from_json(first_shape))
        try:
            il.start()
            second(b, **shape_from_json(second_shape))
            il.finish()
        finally:
            il.cancel()

    def default_shapes(tier):
        def spread(fn):
            ss = list(fn.shapes(tier if tier != "thorough" else "quick"))
            if len(ss) <= pick:
                return ss
            idx = [0] if pick == 1 else sorted({round(i * (len(ss) - 1) / (pick - 1)) for i in range(pick)})
            return [ss[i] for i in idx]

        return [(x, y) for x in spread(first) for y in spread(second)]

    src = shapes or default_shapes
    body.shapes = lambda tier: [dict(first_shape=_plain(x), second_shape=_plain(y)) for x, y in src(tier)]
    body.budget_s = budget_s
    body.max_paths = max_paths
    body.is_pair = True
    body.pair_of = (first.cname, second.cname)
    body.cost = 3
    return body


def _plain(shape):
    return {k: (list(v) if isinstance(v, tuple) else v) for k, v in shape.items()}


class MutableView:
    """the verification context with every octet-string input handed out as a caller-owned MUTABLE buffer (bytearray); after
    the contract body each buffer must still hold the octets it was created with"""

    def __init__(self, vc):
        object.__setattr__(self, "_vc", vc)
        object.__setattr__(self, "_bufs", [])

    @property
    def mode(self):
        return self._vc.mode

    def bytes_(self, n, name):
        d = self._vc.bytes_(n, name)
        if self._vc.mode == "native":
            buf = bytearray(d)
        else:
            from .shadows import SByteArray

            buf = SByteArray(d)
        self._bufs.append((name, buf, d))
        return buf

    def __getattr__(self, k):
        return getattr(self._vc, k)

    def __setattr__(self, k, v):
        setattr(self._vc, k, v)


def mutable(base, shapes=None, pick=3, properties=None):
    """register `<contract>.mutable_buffers`: the same contract text with bytearray inputs + the frame clause on each of them"""
    cname = base.cname + ".mutable_buffers"
    props = list(properties or dict.fromkeys(list(base.properties) + ["C19"]))

    @contract(cname, base.target, props, stubs=list(base.stubs),
              note="%s with every octet-string input given as a caller-owned bytearray: same clauses, and the buffers come back unchanged" % base.cname)
    def body(vc, **shape):
        mv = MutableView(vc)
        base(mv, **shape)
        for name, buf, d in mv._bufs:
            n = len(d)
            vc.prove("mutable_buffer_unchanged." + name.split(".")[-1].rstrip("0123456789"), len(buf) == n and vc.and_(*[vc.eq(buf[i], d[i]) for i in range(n)]))

    def default_shapes(tier):
        ss = list(base.shapes("quick"))
        if len(ss) <= pick:
            return ss
        idx = sorted({round(i * (len(ss) - 1) / (pick - 1)) for i in range(pick)}) if pick > 1 else [0]
        return [ss[i] for i in idx]

    body.shapes = shapes or default_shapes
    body.budget_s = 120
    body.max_paths = 3000
    body.cost = 2
    return body
