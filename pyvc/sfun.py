"""finite functions over a small base support + symbolically keyed dict/list views"""
from .core import C, ONE, ZERO, OutOfReach, base_support, tt_eval, branch, pvar
from .values import SBit, SInt, SLin, SBits, mkbit, bitpoly, is_sym
from .tables import mobius
import numpy as _np

MAXSUP = 16


def _polys_of(x):
    """list of polys (LSB first) of a bit-vector-like symbolic value"""
    if isinstance(x, SBit):
        return [x.p]
    if isinstance(x, SLin):
        x = x.to_sint()
    if isinstance(x, SInt):
        return [bitpoly(b) for b in x.bits]
    raise TypeError(type(x))


class SFun:
    def __init__(self, support, table):
        self.support = tuple(support)
        self.table = list(table)

    # ---- construction
    @staticmethod
    def of(x):
        if isinstance(x, SFun):
            return x
        if isinstance(x, (SBit, SInt, SLin)):
            polys = _polys_of(x)
            sup = sorted(base_support(polys))
            if len(sup) > MAXSUP:
                # definitional extension: name every wide AFFINE bit by a fresh atom a (a = poly is added to the path
                # condition; Gaussian elimination then pivots on an ordinary input atom, never on a), so that the finite
                # function is over the few fresh atoms.  Sound and complete; only affine bits qualify.
                from . import core as _core

                if len(polys) > MAXSUP or not all(_core.pis_affine(q) and not (_core.patoms(q) & set(C.gates)) for q in polys):
                    if _core.DEBUG:
                        for q in polys:
                            for a in _core.patoms(q):
                                if a in C.gates:
                                    g = C.gates[a]
                                    print("   gate", C.names[a], g[0], [(len(c), max((len(m) for m in c), default=0)) for c in g[1]][:12] if g[0] == "and" else "")
                        import traceback; traceback.print_stack(limit=7)
                        print("SFun.of: cannot name bits:", [(len(q), max((len(m) for m in q), default=0), [C.names[a] for a in _core.patoms(q) if a in C.gates][:3]) for q in polys])
                    raise OutOfReach("support too large for point-wise evaluation")
                named = []
                for q in polys:
                    q = _core.norm_under_pc(q)
                    if len(q) <= 1 and all(len(m) <= 1 for m in q):
                        named.append(q)
                        continue
                    a = C.fresh("def%d" % C.natoms)
                    C.nonlin.add(a)
                    _core.assume(_core.norm_under_pc(pvar(a) ^ q ^ ONE))
                    named.append(pvar(a))
                polys = named
                sup = sorted(base_support(polys))
            tts, full = tt_eval(polys, sup)
            n = 1 << len(sup)
            return SFun(sup, [sum(((tts[b] >> j) & 1) << b for b in range(len(polys))) for j in range(n)])
        return SFun((), [x])

    @staticmethod
    def joint(items):
        fs = [SFun.of(i) for i in items]
        sup = sorted(set().union(*[set(f.support) for f in fs]))
        if len(sup) > MAXSUP:
            raise OutOfReach("joint support too large")
        pos = {a: i for i, a in enumerate(sup)}
        out = []
        for j in range(1 << len(sup)):
            vals = []
            for f in fs:
                idx = 0
                for bi, a in enumerate(f.support):
                    if (j >> pos[a]) & 1:
                        idx |= 1 << bi
                vals.append(f.table[idx])
            out.append(tuple(vals))
        return sup, out

    @staticmethod
    def map(fn, *items):
        sup, rows = SFun.joint(items)
        return SFun(sup, [fn(*r) for r in rows]).simplify()

    def simplify(self):
        t0 = self.table[0]
        try:
            if all(type(v) is type(t0) and v == t0 for v in self.table):
                return t0
        except Exception:
            pass
        return self

    # ---- conversion back
    def to_poly(self):
        k = len(self.support)
        col = [1 if v else 0 for v in self.table]
        anf = mobius(col, k)
        p = set()
        for mask, c in enumerate(anf):
            if c:
                p.add(frozenset(self.support[i] for i in range(k) if (mask >> i) & 1))
        return frozenset(p)

    def to_bit(self):
        if not all(v in (0, 1, True, False) for v in self.table):
            raise OutOfReach("non-bit SFun used as bit")
        return mkbit(self.to_poly())

    def to_sint(self):
        if not all(isinstance(v, (int, _np.integer)) and v >= 0 for v in self.table):
            raise OutOfReach("SFun with non-natural values used as int")
        w = max(int(v).bit_length() for v in self.table)
        k = len(self.support)
        bits = []
        for b in range(w):
            anf = mobius([(int(v) >> b) & 1 for v in self.table], k)
            bits.append(mkbit(frozenset(frozenset(self.support[i] for i in range(k) if (m >> i) & 1) for m, c in enumerate(anf) if c)))
        return SInt(bits).n()

    # ---- python protocol
    def __bool__(self):
        return branch(SFun.map(lambda v: 1 if v else 0, self).to_poly() if isinstance(SFun.map(lambda v: 1 if v else 0, self), SFun) else (ONE if SFun.map(lambda v: 1 if v else 0, self) else ZERO))

    def __iter__(self):
        n = {len(v) for v in self.table}
        if len(n) != 1:
            raise OutOfReach("iterating SFun of ragged tuples")
        for i in range(n.pop()):
            yield SFun.map(lambda v, i=i: v[i], self)

    def __hash__(self):
        raise OutOfReach("hash of SFun")

    def __deepcopy__(self, memo):
        return self

    def __index__(self):
        v = 0
        s = self.to_sint()
        return s.__index__() if isinstance(s, SInt) else int(s)

    def _bin(op):
        def f(self, o):
            return SFun.map(op, self, o)
        return f

    def _rbin(op):
        def f(self, o):
            return SFun.map(lambda a, b: op(b, a), self, o)
        return f

    import operator as _o

    __eq__ = _bin(_o.eq)
    __ne__ = _bin(_o.ne)
    __lt__ = _bin(_o.lt)
    __le__ = _bin(_o.le)
    __gt__ = _bin(_o.gt)
    __ge__ = _bin(_o.ge)
    __add__ = _bin(_o.add)
    __radd__ = _rbin(_o.add)
    __sub__ = _bin(_o.sub)
    __rsub__ = _rbin(_o.sub)
    __mul__ = _bin(_o.mul)
    __rmul__ = _rbin(_o.mul)
    __and__ = _bin(_o.and_)
    __rand__ = _rbin(_o.and_)
    __mod__ = _bin(_o.mod)
    __xor__ = _bin(_o.xor)

    def __abs__(self):
        return SFun.map(abs, self)

    def __repr__(self):
        return "SFun<%d atoms>" % len(self.support)


def _symkey(k):
    return isinstance(k, (SBit, SInt, SLin, SFun)) or (isinstance(k, tuple) and any(_symkey(x) for x in k))


class SymDict(dict):
    def __getitem__(self, k):
        if not _symkey(k):
            return dict.__getitem__(self, k)
        if isinstance(k, tuple):
            sup, rows = SFun.joint(list(k))
            keys = rows
        else:
            f = SFun.of(k)
            sup, keys = f.support, f.table
        present = SFun(sup, [1 if dict.__contains__(self, kk) else 0 for kk in keys]).simplify()
        if not (present if not isinstance(present, SFun) else bool(present)):
            raise KeyError("symbolic key not present")
        return SFun(sup, [dict.get(self, kk) for kk in keys]).simplify()


class SymSeq(list):
    """list/tuple view indexable by symbolic ints of small support (point-wise)"""

    def __getitem__(self, i):
        if isinstance(i, (SBit, SLin)):
            i = SInt.lift(i)
        if isinstance(i, SInt):
            i = SFun.of(i)
        if not isinstance(i, SFun):
            return list.__getitem__(self, i)
        n = len(self)
        ok = SFun.map(lambda v: 1 if -n <= v < n else 0, i)
        if not (ok if not isinstance(ok, SFun) else bool(ok)):
            raise IndexError("list index out of range")
        r = SFun(i.support, [list.__getitem__(self, v) if -n <= v < n else None for v in i.table]).simplify()
        return r
