"""library models injected into okdmr module namespaces (verifier process only)"""
import builtins
import enum
import sys
import array as _array_mod

import numpy as _np
from bitarray import bitarray as _real_bitarray
from bitarray.util import ba2int as _real_ba2int, int2ba as _real_int2ba

from . import core
from .core import OutOfReach
from .values import (
    SBit,
    SInt,
    SLin,
    SNeg,
    SBits,
    SBytes,
    ball,
    beq,
    bnot,
    is_sym,
    s_ba2int,
    s_int2ba,
    s_int_from_bytes,
    tobit,
    as_sint,
    ByteSeqOps,
    KBytes,
    join_octets,
)


# ---------------------------------------------------------------- numpy façade
class SNd(_np.ndarray):
    def __divmod__(self, m):
        return (None, (self % m).view(SNd))


def _obj(x):
    return _np.asarray(x, dtype=object)


class NumpyFacade:
    def __getattr__(self, k):
        return getattr(_np, k)

    def array(self, x, *a, **k):
        if isinstance(x, SBits):
            x = x.tolist()
        return _np.array(x, dtype=object).view(SNd)

    def ndarray(self, shape=None, dtype=None, **k):
        return _np.ndarray(shape=shape, dtype=object).view(SNd)

    def dot(self, a, b):
        return _np.dot(_obj(a), _obj(b)).view(SNd)

    def append(self, a, v, axis=None):
        return _np.append(_obj(a), _obj(v), axis=axis).view(SNd)

    def array_equal(self, a, b):
        a = _obj(a).ravel().tolist()
        b = _obj(b).ravel().tolist()
        if len(a) != len(b):
            return False
        r = ball([beq(tobit(x), tobit(y)) for x, y in zip(a, b)])
        return r if isinstance(r, SBit) else bool(r)


# ---------------------------------------------------------------- builtins shadows
class _IntMeta(type):
    def __instancecheck__(cls, o):
        return isinstance(o, (builtins.int, SBit, SInt, SLin, SNeg, _np.integer)) or type(o).__name__ == "SZInt"


class s_int(metaclass=_IntMeta):
    def __new__(cls, x=0, base=None):
        if base is not None:
            if hasattr(x, "to_int"):
                return x.to_int(base)
            return builtins.int(x, base)
        if isinstance(x, (SBit, SLin)):
            return SInt.lift(x)
        if isinstance(x, SInt):
            return x
        if type(x).__name__ == "SDyadic":
            return x.trunc()
        if isinstance(x, SNeg):
            return x
        return builtins.int(x)

    from_bytes = staticmethod(s_int_from_bytes)

    @staticmethod
    def to_bytes(v, length=1, byteorder="big", signed=False):
        if isinstance(v, (SBit, SLin)):
            v = SInt.lift(v)
        if isinstance(v, SInt) or type(v).__name__ == "SZInt":
            return v.to_bytes(length, byteorder, signed=signed)
        return builtins.int.to_bytes(v, length, byteorder, signed=signed)


class _BytesMeta(type):
    def __instancecheck__(cls, o):
        return isinstance(o, (builtins.bytes, SBytes)) or type(o).__name__ == "ZBytes"


class s_bytes(metaclass=_BytesMeta):
    def __new__(cls, x=b"", *a, **k):
        if isinstance(x, SBytes):
            return x
        if isinstance(x, SByteArray):
            return SBytes(x.v).n()
        if isinstance(x, (builtins.bytes, builtins.int, str)):
            return builtins.bytes(x, *a, **k)
        if type(x).__name__ == "ZBytes":
            return x
        items = list(x)
        if any(type(i).__name__ == "SZInt" for i in items):
            from .zint import ZBytes

            return ZBytes(items)
        if any(is_sym(i) for i in items):
            return SBytes(items).n()
        return builtins.bytes(items)

    fromhex = staticmethod(builtins.bytes.fromhex)


class SByteArray(ByteSeqOps):
    """model of bytearray over (symbolic) 8-bit ints"""

    def __getattr__(self, k):
        from .core import ModelGap

        raise ModelGap("'SByteArray' proxy has no model of attribute '%s'" % k)


    def __init__(self, x=b""):
        self.v = list(x.v) if isinstance(x, (SBytes, SByteArray)) else list(x)

    def __len__(self):
        return len(self.v)

    def __getitem__(self, i):
        if isinstance(i, slice):
            r = SByteArray(); r.v = self.v[i]; return r
        return self.v[i]

    def __setitem__(self, i, x):
        if isinstance(i, slice):
            self.v[i] = list(x.v) if isinstance(x, (SBytes, SByteArray)) else list(x)
        else:
            if type(x).__name__ == "SZInt":
                if bool(x > 255) or bool(x < 0):  # (decided by the word's axioms where they settle it, a fork otherwise)
                    raise ValueError("byte must be in range(0, 256)")
            elif not is_sym(x) and not 0 <= x <= 255:
                raise ValueError("byte must be in range(0, 256)")
            if isinstance(x, (SLin, SInt)):
                xs = SInt.lift(x)
                if xs.width() > 8 and bool(xs > 255):  # forks: the real bytearray rejects the value
                    raise ValueError("byte must be in range(0, 256)")
                if isinstance(xs, SInt):
                    x = SInt(xs.bits[:8]).n()
            self.v[i] = x

    def __iter__(self):
        return iter(list(self.v))

    def append(self, x):
        self.v.append(None)
        self[len(self.v) - 1] = x  # (range check of the element as for item assignment)

    def extend(self, o):
        for x in list(o):
            self.append(x)

    def insert(self, i, x):
        self.v.insert(i, None)
        self[i if i >= 0 else max(0, len(self.v) - 1 + i)] = x

    def pop(self, i=-1):
        return self.v.pop(i)

    def reverse(self):
        self.v.reverse()

    def clear(self):
        self.v.clear()

    def copy(self):
        r = SByteArray(); r.v = list(self.v); return r

    def __delitem__(self, i):
        del self.v[i]

    def __add__(self, o):
        r = SByteArray(); r.v = self.v + list(o); return r

    def __radd__(self, o):
        return SBytes(list(o) + self.v).n()  # bytes + bytearray is bytes

    def __mul__(self, k):
        r = SByteArray(); r.v = self.v * k; return r

    def __iadd__(self, o):
        self.v += list(o); return self

    def __eq__(self, o):
        return SBytes(self.v).n() == (SBytes(o.v).n() if isinstance(o, SByteArray) else o)

    def hex(self, *a):
        return "<symbolic-bytes>"

    def __repr__(self):
        return "SByteArray<%d>" % len(self.v)


_TYPEMAP = {}


def s_isinstance(o, t):
    if isinstance(t, tuple):
        return any(s_isinstance(o, x) for x in t)
    if isinstance(o, SymMember):
        return isinstance(t, type) and issubclass(o._cls, t)
    t = getattr(t, "_pyvc_real", t)
    if t is builtins.int or t is s_int:
        return isinstance(o, (builtins.int, SBit, SInt, SLin, SNeg, _np.integer)) or type(o).__name__ == "SZInt"
    if t is builtins.bytes or t is s_bytes:
        return isinstance(o, (builtins.bytes, SBytes)) or type(o).__name__ == "ZBytes"
    if t is _real_bitarray or t is SBits:
        return isinstance(o, (_real_bitarray, SBits))
    if t is builtins.bool:
        return isinstance(o, builtins.bool)
    return isinstance(o, t)


class SArray:
    """model of array.array('b'|'B'): list with range obligation"""

    def __getattr__(self, k):
        from .core import ModelGap

        raise ModelGap("'SArray' proxy has no model of attribute '%s'" % k)


    RANGES = {"b": (-128, 127), "B": (0, 255)}

    def __init__(self, code, init=()):
        self.code = code
        self.v = []
        for x in init:
            self.append(x)

    def _chk(self, x):
        lo, hi = self.RANGES[self.code]
        if hasattr(x, "support"):  # SFun: range obligation point-wise
            if not all(lo <= v <= hi for v in x.table):
                raise OutOfReach("array range check on SFun")
            return x
        if isinstance(x, (SBit, SInt, SLin)):
            x = as_sint(x) if not isinstance(x, SBit) else x
            if isinstance(x, SInt) and x.width() > 8 - (self.code == "b"):
                raise OutOfReach("array range check on wide symbolic int")
            return x
        if not lo <= x <= hi:
            raise OverflowError("array item out of range")
        return int(x)

    def append(self, x):
        self.v.append(self._chk(x))

    def __len__(self):
        return len(self.v)

    def __getitem__(self, i):
        if isinstance(i, slice):
            return SArray(self.code, self.v[i])
        return self.v[i]

    def __setitem__(self, i, x):
        self.v[i] = self._chk(x)

    def __iter__(self):
        return iter(list(self.v))

    def tolist(self):
        return list(self.v)

    def extend(self, xs):
        for x in list(xs):
            self.append(x)

    def __iadd__(self, xs):
        self.extend(xs)
        return self

    def __add__(self, o):
        r = SArray(self.code, self.v)
        r.extend(o)
        return r

    def __mul__(self, k):
        return SArray(self.code, self.v * int(k))

    def insert(self, i, x):
        self.v.insert(i, self._chk(x))

    def pop(self, i=-1):
        return self.v.pop(i)

    def reverse(self):
        self.v.reverse()

    def __contains__(self, x):
        # (the caller's `in` turns the result into a bool: a symbolic comparison forks there)
        return any(bool(v == x) for v in self.v)

    def index(self, x, *a):
        lo = a[0] if a else 0
        hi = a[1] if len(a) > 1 else len(self.v)
        for i in range(lo, hi):
            if bool(self.v[i] == x):
                return i
        raise ValueError("array.index(x): x not in array")

    def count(self, x):
        tot = 0
        for v in self.v:
            tot = (v == x) + tot
        return tot

    def __eq__(self, o):
        return isinstance(o, SArray) and self.v == o.v


# ---------------------------------------------------------------- enum
_orig_enum_call = enum.EnumType.__call__


class _Raises:
    def __init__(self, exc):
        self.exc = exc


class SymMember:
    """an enumeration member that depends on symbolic bits: the finite function  value bits -> member  obtained by running
    the REAL Enum call (incl. the class's own _missing_) natively on every value of the symbolic argument.  It forks only
    where control flow really depends on which member it is (==, hash, name); .value and the class's own methods
    (as_bits ...) work without forking."""

    def __init__(self, cls, fun, raw=None, dontcare=None):
        object.__setattr__(self, "_cls", cls)
        object.__setattr__(self, "_fun", fun)
        object.__setattr__(self, "_raw", raw)  # the argument value at every point of the table
        object.__setattr__(self, "_dc", dontcare)  # points excluded by the path condition when the member was made

    @property
    def value(self):
        from .sfun import SFun

        if self._dc is not None and any(self._dc):
            # at points the path condition excludes the value is irrelevant: take the argument itself, which keeps the
            # value an affine function of the argument bits whenever the enumeration is the identity on what remains
            r = SFun(self._fun.support, [x if dc else m.value for m, x, dc in zip(self._fun.table, self._raw, self._dc)]).simplify()
        else:
            r = SFun.map(lambda m: m.value, self._fun)
        return r.to_sint() if isinstance(r, SFun) else r

    def _concretise(self):
        seen = []
        for m in self._fun.table:
            if not any(m is x for x in seen):
                seen.append(m)
        for m in seen[:-1]:
            if bool(self == m):
                return m
        return seen[-1]

    def __eq__(self, o):
        from .sfun import SFun

        if isinstance(o, SymMember):
            r = SFun.map(lambda a, b: 1 if a is b else 0, self._fun, o._fun)
        elif isinstance(o, enum.Enum):
            r = SFun.map(lambda a: 1 if a is o else 0, self._fun)
        else:
            return False
        return r.to_bit() if isinstance(r, SFun) else bool(r)

    def __ne__(self, o):
        return bnot(self.__eq__(o)) if isinstance(self.__eq__(o), SBit) else not self.__eq__(o)

    def __hash__(self):
        return hash(self._concretise())

    def __bool__(self):
        return True

    def __deepcopy__(self, memo):
        return self

    def __repr__(self):
        return "<symbolic %s>" % self._cls.__name__

    __str__ = __repr__

    def __format__(self, spec):
        return repr(self)

    def __getattr__(self, k):
        cls = object.__getattribute__(self, "_cls")
        raw = None
        for c in cls.__mro__:
            if k in c.__dict__:
                raw = c.__dict__[k]
                break
        import types

        if isinstance(raw, types.FunctionType):
            return types.MethodType(raw, self)
        if isinstance(raw, property):
            return raw.fget(self)
        if isinstance(raw, (staticmethod, classmethod)):
            return getattr(cls, k)
        return getattr(self._concretise(), k)


def _enum_call(cls, value, *a, **k):
    if isinstance(value, SymMember) and not a and not k:
        if issubclass(value._cls, cls):
            return value
        value = value.value
    if a or k or not is_sym(value):
        return _orig_enum_call(cls, value, *a, **k)
    if isinstance(value, (SBit, SLin)):
        value = SInt.lift(value)
    from .sfun import SFun, MAXSUP

    f = None
    for attempt in (0, 1):
        try:
            cand = value if attempt == 0 or not isinstance(value, SInt) else value.under_pc()
        except core.Undecided as e:
            core.unpoison(e)
            break
        if not is_sym(cand):
            return _orig_enum_call(cls, cand)
        try:
            f = SFun.of(cand)
            break
        except OutOfReach as e:
            core.unpoison(e)
    if f is None or not isinstance(f, SFun):
        # wide symbolic value: fork member by member, then the class's own _missing_ on the symbolic value
        for v, member in cls._value2member_map_.items():
            if isinstance(v, (int,)) and v >= 0:
                if value == v:  # forks
                    return member
        r = cls._missing_(value)
        if r is None:
            raise ValueError(f"{value!r} is not a valid {cls.__qualname__}")
        return r
    table = []
    from . import symdict as _sd

    for x in f.table:
        try:
            table.append(_orig_enum_call(cls, int(x)))
        except Exception as e:  # the real Enum machinery / _missing_ raised for this value
            table.append(_Raises(type(e)))
    # (the Enum call was made for EVERY value the argument can take - a device of the model; whatever a `_missing_` hook
    # wrote onto the member singletons while it was asked about values the program did not pass must not stay.  The side
    # effect of the one real call is thereby not modelled either: state kept on enum members is visible to the native
    # history oracle and the native cross-check only.)
    _sd.reset_enums()
    excs = []
    for t in table:
        if isinstance(t, _Raises) and t.exc not in excs:
            excs.append(t.exc)
    for exc in excs:
        bad = SFun(f.support, [1 if (isinstance(t, _Raises) and t.exc is exc) else 0 for t in table]).simplify()
        if (bool(bad.to_bit()) if isinstance(bad, SFun) else bad):  # forks: this value makes the Enum call raise
            raise exc(f"symbolic value is not a valid {cls.__qualname__}")
    good = next(t for t in table if not isinstance(t, _Raises))
    dontcare = [isinstance(t, _Raises) for t in table]  # excluded on this path by the forks above
    table = [good if isinstance(t, _Raises) else t for t in table]
    # points excluded by earlier constraints over (a subset of) the same atoms, e.g. the range restriction of an input
    sup = set(f.support)
    for c in core.C.pc_other:
        if core.base_support([c]) <= sup:
            for j in range(len(table)):
                if not dontcare[j]:
                    env = {a: (j >> i) & 1 for i, a in enumerate(f.support)}
                    if not core.peval(c, env):
                        dontcare[j] = True
    live = [t for t, dc in zip(table, dontcare) if not dc]
    if live and all(t is live[0] for t in live):
        return live[0]
    return SymMember(cls, SFun(f.support, table), [int(x) for x in f.table], dontcare)


TRIPPED = []  # (what) - wall-clock time / randomness sources called on the current path


def _tripwire(mod, name, what):
    orig = getattr(mod, name)

    def wrapper(*a, **k):
        if sys._getframe(1).f_globals.get("__name__", "").startswith("okdmr."):  # called by code under contract
            TRIPPED.append(what)
        return orig(*a, **k)

    wrapper._pyvc_orig = orig
    setattr(mod, name, wrapper)


def install_tripwires(modules):
    import secrets, time as _time, uuid, random as _random, datetime as _dt

    for mod, names in ((secrets, ("token_bytes", "token_hex", "randbits", "randbelow", "choice")), (_time, ("time", "time_ns", "monotonic", "perf_counter")),
                       (uuid, ("uuid1", "uuid4")), (_random, ("random", "randint", "getrandbits", "randrange", "choice", "randbytes"))):
        for n in names:
            if hasattr(mod, n) and not hasattr(getattr(mod, n), "_pyvc_orig"):
                _tripwire(mod, n, mod.__name__ + "." + n)

    class TripDatetime(_dt.datetime):
        _pyvc_real = _dt.datetime

        @classmethod
        def now(cls, tz=None):
            TRIPPED.append("datetime.now")
            return _dt.datetime.now(tz)

        @classmethod
        def utcnow(cls):
            TRIPPED.append("datetime.utcnow")
            return _dt.datetime.utcnow()

        @classmethod
        def today(cls):
            TRIPPED.append("datetime.today")
            return _dt.datetime.today()

    class TripDate(_dt.date):
        _pyvc_real = _dt.date

        @classmethod
        def today(cls):
            TRIPPED.append("date.today")
            return _dt.date.today()

    for m in modules:
        d = m.__dict__
        for k, v in list(d.items()):
            if v is _dt.datetime:
                d[k] = TripDatetime
            elif v is _dt.date:
                d[k] = TripDate
            elif getattr(v, "__module__", None) in ("time", "secrets", "uuid", "random") and callable(v) and not hasattr(v, "_pyvc_orig"):
                src = sys.modules.get(v.__module__)
                w = getattr(src, getattr(v, "__name__", ""), None) if src else None
                if w is not None and hasattr(w, "_pyvc_orig"):
                    d[k] = w  # `from time import time` captured the original: rebind to the tripwire


# ---------------------------------------------------------------- struct façade
import struct as _struct
import re as _re
import types as _types

_STD_SIZE = {"B": 1, "H": 2, "I": 4, "L": 4, "Q": 8, "b": 1, "h": 2, "i": 4, "l": 4, "q": 8, "x": 1, "c": 1, "s": 1, "?": 1}


def _is_proxy_value(x):
    return is_sym(x) or type(x).__name__ in ("SZInt", "ZBytes", "SByteArray", "SArith", "SDiff")


class StructFacade:
    """struct.pack / unpack / unpack_from / calcsize for symbolic integers and octet strings: standard-size formats with an
    explicit byte order, unsigned integer codes, pad octets and octet strings; everything else (and every all-literal call)
    goes to the real module"""

    error = _struct.error

    def __getattr__(self, k):
        return getattr(_struct, k)

    @staticmethod
    def _fields(fmt):
        if isinstance(fmt, bytes):
            fmt = fmt.decode()
        order = "big"
        if fmt[:1] in "<>!=@":
            if fmt[0] == "@":
                raise OutOfReach("struct format with native alignment on symbolic values")
            order = "little" if fmt[0] == "<" or (fmt[0] == "=" and sys.byteorder == "little") else "big"
            fmt = fmt[1:]
        else:
            raise OutOfReach("struct format with native alignment on symbolic values")
        out = []
        for cnt, code in _re.findall(r"\s*(\d*)([a-zA-Z?])", fmt):
            if code not in _STD_SIZE:
                raise OutOfReach("struct code %r on symbolic values" % code)
            n = int(cnt) if cnt else 1
            if code == "s":
                out.append(("s", n))
            else:
                out.extend([(code, _STD_SIZE[code])] * n)
        return order, out

    def pack(self, fmt, *vals):
        if not any(_is_proxy_value(v) for v in vals):
            return _struct.pack(fmt, *vals)
        order, fields = self._fields(fmt)
        if len([f for f in fields if f[0] != "x"]) != len(vals):
            raise _struct.error("pack expected %d items for packing (got %d)" % (len([f for f in fields if f[0] != "x"]), len(vals)))
        out = b""
        it = iter(vals)
        for code, size in fields:
            if code == "x":
                out = out + b"\x00"
                continue
            v = next(it)
            if not _is_proxy_value(v):
                out = out + _struct.pack(("<" if order == "little" else ">") + (("%ds" % size) if code == "s" else code), v)
            elif code == "s":
                if len(v) > size:
                    v = v[:size]
                out = out + v + b"\x00" * (size - len(v))
            elif code in "BHILQ":
                try:
                    out = out + s_int.to_bytes(v, size, order)
                except OverflowError:
                    raise _struct.error("argument out of range")
            else:
                raise OutOfReach("struct code %r with a symbolic value" % code)
        return out

    def unpack_from(self, fmt, buffer, offset=0):
        if not _is_proxy_value(buffer):
            return _struct.unpack_from(fmt, buffer, offset)
        order, fields = self._fields(fmt)
        total = sum(sz for _, sz in fields)
        if offset < 0:
            offset += len(buffer)
        if len(buffer) - offset < total:
            raise _struct.error("unpack_from requires a buffer of at least %d bytes" % (total + offset))
        out = []
        o = offset
        for code, size in fields:
            part = buffer[o:o + size]
            o += size
            if code == "x":
                continue
            if not _is_proxy_value(part):
                out.append(_struct.unpack(("<" if order == "little" else ">") + (("%ds" % size) if code == "s" else code), bytes(part))[0])
            elif code == "s":
                out.append(s_bytes(part))
            elif code in "BHILQ":
                out.append(s_int_from_bytes(part, order))
            elif code in "bhilq":
                out.append(s_int_from_bytes(part, order, signed=True))
            else:
                raise OutOfReach("struct code %r with symbolic octets" % code)
        return tuple(out)

    def unpack(self, fmt, buffer):
        if not _is_proxy_value(buffer):
            return _struct.unpack(fmt, buffer)
        order, fields = self._fields(fmt)
        total = sum(sz for _, sz in fields)
        if len(buffer) != total:
            raise _struct.error("unpack requires a buffer of %d bytes" % total)
        return self.unpack_from(fmt, buffer, 0)

    def iter_unpack(self, fmt, buffer):
        if not _is_proxy_value(buffer):
            return _struct.iter_unpack(fmt, buffer)
        order, fields = self._fields(fmt)
        total = sum(sz for _, sz in fields)
        if total == 0 or len(buffer) % total:
            raise _struct.error("iterative unpacking requires a buffer of a multiple of %d bytes" % total)
        return iter([self.unpack_from(fmt, buffer, o) for o in range(0, len(buffer), total)])


_STRUCT = StructFacade()


# ---------------------------------------------------------------- range
class SRange:
    """`range` as the code under verification sees it: a real range in every respect, except that membership of a SYMBOLIC
    integer is decided arithmetically (start <= x < stop, on the step grid) - CPython's own fall-back for a non-int operand
    compares with every element in turn, i.e. one fork per element"""

    __slots__ = ("r",)

    def __init__(self, *a):
        self.r = a[0] if len(a) == 1 and isinstance(a[0], builtins.range) else builtins.range(*a)

    def __iter__(self):
        return iter(self.r)

    def __reversed__(self):
        return reversed(self.r)

    def __len__(self):
        return len(self.r)

    def __bool__(self):
        return len(self.r) > 0

    def __getitem__(self, i):
        v = self.r[i]
        return SRange(v) if isinstance(v, builtins.range) else v

    def __contains__(self, x):
        if not _is_proxy_value(x):
            return x in self.r
        r = self.r
        if len(r) == 0:
            return False
        lo, hi = (r.start, r[-1]) if r.step > 0 else (r[-1], r.start)
        inside = bool(x >= lo) and bool(x <= hi)
        if not inside:
            return False
        if abs(r.step) == 1:
            return True
        return bool(((x - lo) % abs(r.step)) == 0)

    def __eq__(self, o):
        return self.r == (o.r if isinstance(o, SRange) else o)

    def __hash__(self):
        return hash(self.r)

    def __repr__(self):
        return repr(self.r)

    def index(self, x):
        return self.r.index(x)

    def count(self, x):
        return 1 if x in self else 0

    start = property(lambda s: s.r.start)
    stop = property(lambda s: s.r.stop)
    step = property(lambda s: s.r.step)


# ---------------------------------------------------------------- literals of the code under verification
def _retype_consts(code):
    """bytes constants of a code object (and of the code objects nested in it) become KBytes: the instruction stream,
    names and every other constant stay what the compiler produced"""
    changed = False
    consts = []
    for c in code.co_consts:
        if type(c) is builtins.bytes:
            consts.append(KBytes(c)); changed = True
        elif isinstance(c, _types.CodeType):
            n = _retype_consts(c)
            changed = changed or n is not c
            consts.append(n)
        elif type(c) is tuple and any(type(x) is builtins.bytes for x in c):
            consts.append(tuple(KBytes(x) if type(x) is builtins.bytes else x for x in c)); changed = True
        else:
            consts.append(c)
    return code.replace(co_consts=tuple(consts)) if changed else code


def retype_literals(modules):
    seen = set()

    def fix(f):
        f = getattr(f, "__func__", f)
        if isinstance(f, _types.FunctionType) and id(f) not in seen and (f.__module__ or "").startswith("okdmr.dmrlib"):
            seen.add(id(f))
            n = _retype_consts(f.__code__)
            if n is not f.__code__:
                f.__code__ = n

    for m in modules:
        for v in list(m.__dict__.values()):
            if isinstance(v, _types.FunctionType):
                fix(v)
            elif isinstance(v, type) and (v.__module__ or "").startswith("okdmr.dmrlib"):
                for w in list(v.__dict__.values()):
                    if isinstance(w, (staticmethod, classmethod)):
                        fix(w.__func__)
                    elif isinstance(w, property):
                        for g in (w.fget, w.fset, w.fdel):
                            if g is not None:
                                fix(g)
                    else:
                        fix(w)


def install(modules=None):
    enum.EnumType.__call__ = _enum_call
    fac = NumpyFacade()
    if modules is None:
        modules = [m for n, m in list(sys.modules.items()) if n.startswith("okdmr.dmrlib") and m is not None]
    for m in modules:
        d = m.__dict__
        for k, v in list(d.items()):
            if v is _real_bitarray:
                d[k] = SBits
            elif v is _real_ba2int:
                d[k] = s_ba2int
            elif v is _real_int2ba:
                d[k] = s_int2ba
            elif v is _np:
                d[k] = fac
            elif v is _array_mod.array:
                d[k] = SArray
            elif v is _struct:
                d[k] = _STRUCT
            elif v is _struct.pack:
                d[k] = _STRUCT.pack
            elif v is _struct.unpack:
                d[k] = _STRUCT.unpack
            elif v is _struct.unpack_from:
                d[k] = _STRUCT.unpack_from
        d["int"] = s_int
        d["bytes"] = s_bytes
        d["bytearray"] = SByteArray
        from .binstr import s_bin
        d["bin"] = s_bin
        d["isinstance"] = s_isinstance
        d["range"] = SRange
    install_tripwires(modules)
    retype_literals(modules)
    return modules


def rebuild_import_time_objects():
    """re-create import-time objects that must interoperate with the models (run after install())"""
    import okdmr.dmrlib.etsi.crc.crc as crc
    from .tables import SymList
    if not getattr(crc.bits_create_lookup_table, "_pyvc", False):
        orig = crc.bits_create_lookup_table
        try:
            orig.cache_clear()
        except AttributeError:
            pass
        def view(width_bits, polynomial, _orig=orig):
            return SymList(_orig(width_bits, polynomial))
        view._pyvc = True
        crc.bits_create_lookup_table = view
    import okdmr.dmrlib.etsi.fec.reed_solomon_12_9_4 as rsm
    from .sfun import SymSeq
    for name in ("EXPONENTIAL_TABLE", "LOG_TABLE"):
        if not isinstance(getattr(rsm.ReedSolomon1294, name), SymSeq):
            setattr(rsm.ReedSolomon1294, name, SymSeq(getattr(rsm.ReedSolomon1294, name)))
    import okdmr.dmrlib.etsi.fec.trellis as trm
    from .sfun import SymDict
    TT = trm.Trellis34
    for name in ("TRELLIS34_DIBITS", "TRELLIS34_DIBITS_REVERSE", "TRELLIS34_CONSTELLATION_POINTS", "TRELLIS34_CONSTELLATION_POINTS_REVERSE"):
        if not isinstance(getattr(TT, name), SymDict):
            setattr(TT, name, SymDict(getattr(TT, name)))
    if not isinstance(TT.TRELLIS34_ENCODER_STATE_TRANSITION, SymSeq):
        TT.TRELLIS34_ENCODER_STATE_TRANSITION = SymSeq(TT.TRELLIS34_ENCODER_STATE_TRANSITION)
    import okdmr.dmrlib.etsi.crc.crc8 as c8, okdmr.dmrlib.etsi.crc.crc9 as c9, okdmr.dmrlib.etsi.crc.crc16 as c16, okdmr.dmrlib.etsi.crc.crc32 as c32
    for mod, cls, conf in ((c8, "CRC8", crc.Crc8.ETSI_DMR), (c9, "CRC9", crc.Crc9.ETSI_DMR), (c16, "CRC16", crc.Crc16.ETSI_DMR), (c32, "CRC32", crc.Crc32.ETSI_DMR)):
        getattr(mod, cls).CALC = crc.BitCrcCalculator(table_based=True, configuration=conf)
    # class-level / module-level dicts (constant tables; caches a change may add) accept symbolic keys and are reset per path
    from . import symdict
    symdict.install()
    symdict.install_defaults()
    symdict.install_bitarrays()
    symdict.install_enums()
