"""evidence file per EVIDENCE.schema.json (level proof)"""
import json, os, time


def write(path, prop, tier, seed, agg, jobs, paths, refuted, undecided, exceptions, known, wall, functions, assumptions, checker_cmd, bounded_parts=()):
    obligations = len(agg)
    discharged = sum(1 for g in agg.values() if not g["by_backend"].get("REFUTED"))
    by_backend = {}
    solver_s = 0.0
    for g in agg.values():
        solver_s += g["seconds"]
        for b, n in g["by_backend"].items():
            by_backend[b] = by_backend.get(b, 0) + n
    samples = [dict(obligation=k, instances=g["instances"], by_backend=g["by_backend"], seconds=round(g["seconds"], 3)) for k, g in sorted(agg.items())[:12]]
    ev = dict(
        property_id=prop, tier=tier, seed=seed, level="proof",
        coverage=dict(
            obligations=obligations, discharged=discharged, checker_cmd=checker_cmd,
            trusted_base=["CPython 3.12", "pyvc value models (differentially validated)", "pyvc gf2/enum back ends", "z3 5.1", "cvc5 1.4"],
            shapes=jobs, paths=paths, instances_by_backend=by_backend, solver_s=round(solver_s, 3),
            functions_under_contract=functions, samples=samples, bounded_parts=list(bounded_parts),
            refuted_instances=len(refuted), undecided=len(undecided), unexpected_exceptions=len(exceptions),
            known_findings_matched=known,
        ),
        assumptions=assumptions, wall_s=round(wall, 2), violations=len(refuted) - known,
    )
    os.makedirs(os.path.dirname(path), exist_ok=True)
    with open(path, "w") as f:
        json.dump(ev, f, indent=1, default=str)
    return ev
