"""symbolic values: SBit, SInt (bit-vector, non-negative, exact width), SLin, SBits, SBytes"""
import numpy as _np
from bitarray import bitarray as _real_bitarray
from bitarray.util import ba2int as _real_ba2int, int2ba as _real_int2ba

from . import core
from .core import C, ONE, ZERO, OutOfReach, Undecided, pand, pand_many, pnot, pvar


# ------------------------------------------------------------------ bits
class SBit:
    __slots__ = ("p",)

    def __init__(self, p):
        self.p = p

    def __xor__(self, o):
        o = bitpoly(o)
        if o is None:
            return NotImplemented
        return mkbit(self.p ^ o)

    __rxor__ = __xor__

    def __and__(self, o):
        o = bitpoly(o)
        if o is None:
            return NotImplemented
        return mkbit(pand(self.p, o))

    __rand__ = __and__

    def __or__(self, o):
        o = bitpoly(o)
        if o is None:
            return NotImplemented
        return mkbit(pnot(pand(pnot(self.p), pnot(o))))

    __ror__ = __or__

    def __invert__(self):  # NOTE: python ~True == -2; on bits we only meet it via bitarray
        return mkbit(pnot(self.p))

    def __eq__(self, o):
        if isinstance(o, (SInt, SLin)):
            return o.__eq__(self)
        q = bitpoly(o)
        if q is None:
            if isinstance(o, (int, _np.integer)):
                return False  # a bit never equals an int outside {0,1}
            return NotImplemented
        return mkbit(self.p ^ q ^ ONE)

    def __ne__(self, o):
        r = self.__eq__(o)
        if r is NotImplemented:
            return r
        return bnot(r)

    def __hash__(self):
        # a bit used inside a dictionary key: decide it (fork) - the key comparison that follows is then forced
        return hash(1 if core.branch(self.p) else 0)

    def __bool__(self):
        return core.branch(self.p)

    def __index__(self):
        return 1 if core.branch(self.p) else 0

    __int__ = __index__

    def __deepcopy__(self, memo):
        return self

    # arithmetic
    def __mul__(self, o):
        return SLin.lift(self) * o

    __rmul__ = __mul__

    def __add__(self, o):
        return SLin.lift(self) + o

    __radd__ = __add__

    def __sub__(self, o):
        return SLin.lift(self) + (-1) * SLin.lift(o)

    def __rsub__(self, o):
        return SLin.lift(o) + (-1) * SLin.lift(self)

    def __mod__(self, m):
        return SLin.lift(self) % m

    def __lshift__(self, n):
        return SInt((0,) * int(n) + (self,))

    def __gt__(self, o):
        if isinstance(o, (int, _np.integer)):
            return self if o == 0 else (True if o < 0 else False)
        return NotImplemented

    def __ge__(self, o):
        if isinstance(o, (int, _np.integer)):
            return True if o <= 0 else (self if o == 1 else False)
        return NotImplemented

    def __lt__(self, o):
        if isinstance(o, (int, _np.integer)):
            return False if o <= 0 else (bnot(self) if o == 1 else True)
        return NotImplemented

    def __le__(self, o):
        if isinstance(o, (int, _np.integer)):
            return False if o < 0 else (bnot(self) if o == 0 else True)
        return NotImplemented

    def __repr__(self):
        return "SBit<%d monomials>" % len(self.p)


def mkbit(p):
    if p == ONE:
        return 1
    if not p:
        return 0
    return SBit(p)


def bitpoly(x):
    """poly of a bit-like value, or None"""
    if isinstance(x, SBit):
        return x.p
    if isinstance(x, (bool, _np.bool_)):
        return ONE if x else ZERO
    if isinstance(x, (int, _np.integer)):
        if x == 0:
            return ZERO
        if x == 1:
            return ONE
        return None
    if isinstance(x, SInt):
        if not any(isinstance(b, SBit) or b for b in x.bits[1:]):
            return bitpoly(x.bits[0]) if x.bits else ZERO
    return None


def tobit(x):
    if hasattr(x, "to_bit"):
        return x.to_bit()
    p = bitpoly(x)
    if p is None:
        if isinstance(x, (SInt, SLin)):
            # truthiness of an int used as a bit (bitarray semantics: nonzero -> error in real lib)
            raise OutOfReach("int used as bit")
        return 1 if x else 0
    return mkbit(p)


def bnot(x):
    if isinstance(x, SBit):
        return mkbit(pnot(x.p))
    return 0 if x else 1


def band(x, y):
    if isinstance(x, SBit):
        return x & y
    if isinstance(y, SBit):
        return y & x
    return 1 if (x and y) else 0


def beq(x, y):
    if isinstance(x, SBit):
        return x == y
    if isinstance(y, SBit):
        return y == x
    return 1 if (1 if x else 0) == (1 if y else 0) else 0


def ball(xs):
    ps = []
    for x in xs:
        if isinstance(x, SBit):
            ps.append(x.p)
        elif not x:
            return 0
    return mkbit(pand_many(ps))


def fresh_bit(name):
    return SBit(pvar(C.fresh(name)))


def is_sym(x):
    return isinstance(x, (SBit, SInt, SLin, SBits, SBytes, SNeg))


# ------------------------------------------------------------------ ints
class SInt:
    """non-negative integer, little-endian tuple of bits (0/1/SBit); exact, no wrap-around"""

    def __getattr__(self, k):
        from .core import ModelGap

        raise ModelGap("'SInt' proxy has no model of attribute '%s'" % k)


    __slots__ = ("bits",)

    def __init__(self, bits):
        bits = tuple(bits)
        while bits and not isinstance(bits[-1], SBit) and not bits[-1]:
            bits = bits[:-1]
        self.bits = bits

    @staticmethod
    def lift(o):
        if isinstance(o, SInt):
            return o
        if isinstance(o, SBit):
            return SInt((o,))
        if isinstance(o, (bool, _np.bool_)):
            return SInt((int(o),))
        if isinstance(o, (int, _np.integer)):
            o = int(o)
            if o < 0:
                raise OutOfReach("negative int in SInt")
            return SInt(tuple((o >> i) & 1 for i in range(o.bit_length())))
        if isinstance(o, SLin):
            return o.to_sint()
        raise TypeError(type(o))

    def conc(self):
        if any(isinstance(b, SBit) for b in self.bits):
            return None
        return sum(b << i for i, b in enumerate(self.bits))

    def n(self):
        c = self.conc()
        return self if c is None else c

    def width(self):
        return len(self.bits)

    def bit(self, i):
        return self.bits[i] if i < len(self.bits) else 0

    # bitwise
    def _zip(self, o, f):
        o = SInt.lift(o)
        w = max(len(self.bits), len(o.bits))
        return SInt(tuple(f(self.bit(i), o.bit(i)) for i in range(w))).n()

    def __and__(self, o):
        return self._zip(o, band)

    __rand__ = __and__

    def __or__(self, o):
        return self._zip(o, lambda a, b: bnot(band(bnot(a), bnot(b))))

    __ror__ = __or__

    def __xor__(self, o):
        return self._zip(o, lambda a, b: tobit(SBit(bitpoly(a)) ^ b) if isinstance(a, SBit) or isinstance(b, SBit) else a ^ b)

    __rxor__ = __xor__

    def __lshift__(self, k):
        return SInt((0,) * int(k) + self.bits).n()

    def __rshift__(self, k):
        return SInt(self.bits[int(k):]).n()

    # arithmetic
    def __add__(self, o):
        if isinstance(o, SLin):
            return o + self
        o = SInt.lift(o)
        # carry-free when no position has two possibly-nonzero bits
        w = max(len(self.bits), len(o.bits))
        if all((not isinstance(self.bit(i), SBit) and not self.bit(i)) or (not isinstance(o.bit(i), SBit) and not o.bit(i)) for i in range(w)):
            return SInt(tuple(self.bit(i) if (isinstance(self.bit(i), SBit) or self.bit(i)) else o.bit(i) for i in range(w))).n()
        return SLin.lift(self) + SLin.lift(o)  # carries: stay word-level (linear form) as long as possible

    __radd__ = __add__

    def __mul__(self, o):
        if isinstance(o, (int, _np.integer)):
            o = int(o)
            if o < 0:
                r = self * (-o)
                return SNeg(r) if isinstance(r, (SInt, SLin)) else -r
            acc = 0
            k = 0
            while o:
                if o & 1:
                    acc = (self << k) + acc
                o >>= 1
                k += 1
            return acc
        if isinstance(o, float):
            return SDyadic.of_int(self, o)
        raise OutOfReach("symbolic product")

    __rmul__ = __mul__

    def __abs__(self):
        return self  # SInt is non-negative by construction

    def __neg__(self):
        return SNeg(self)

    def under_pc(self):
        """value with every bit normalised modulo the path condition (int if that decides it)"""
        return SInt(tuple(mkbit(core.norm_under_pc(b.p)) if isinstance(b, SBit) else b for b in self.bits)).n()

    def __sub__(self, o):
        a = self.under_pc()
        b = o.under_pc() if isinstance(o, SInt) else o
        if isinstance(a, SInt) or isinstance(b, (SInt, SLin)):
            return SDiff(a, b)
        return a - b

    def __rsub__(self, o):
        a = self.under_pc()
        if isinstance(a, SInt):
            raise OutOfReach("symbolic subtraction")
        return o - a

    def __mod__(self, m):
        if isinstance(m, (int, _np.integer)) and m > 0 and m & (m - 1) == 0:
            return SInt(self.bits[: int(m).bit_length() - 1]).n()
        if isinstance(m, (int, _np.integer)) and m > 0:
            return SLin.lift(self) % int(m)  # word-level arithmetic term
        raise OutOfReach("mod by symbolic or non-positive value")

    def __floordiv__(self, m):
        if isinstance(m, (int, _np.integer)) and m > 0 and m & (m - 1) == 0:
            return self >> (int(m).bit_length() - 1)
        raise OutOfReach("floordiv by non power of two")

    # comparisons
    def __eq__(self, o):
        if isinstance(o, SLin):
            o = o.to_sint()
        try:
            o = SInt.lift(o)
        except (TypeError, OutOfReach) as e:
            core.unpoison(e)
            return False
        w = max(len(self.bits), len(o.bits))
        return ball([beq(self.bit(i), o.bit(i)) for i in range(w)])

    def __ne__(self, o):
        return bnot(self.__eq__(o))

    def _lt(self, o):  # self < o
        o = SInt.lift(o)
        w = max(len(self.bits), len(o.bits))
        lt = 0
        for i in range(w):  # from LSB up: lt = (~a & b) | (~(a^b) & lt)
            a, b = self.bit(i), o.bit(i)
            eq = beq(a, b)
            lt = bor(band(bnot(a), b), band(eq, lt))
        return lt

    def _is_zero(self):
        return ball([bnot(b) for b in self.bits])

    def __lt__(self, o):
        if isinstance(o, (int, _np.integer)):
            if o <= 0:
                return False
            if o == 1:
                return self._is_zero()
        return self._lt(o)

    def __le__(self, o):
        if isinstance(o, (int, _np.integer)):
            if o < 0:
                return False
            if o == 0:
                return self._is_zero()
        return bnot(SInt.lift(o)._lt(self))

    def __gt__(self, o):
        if isinstance(o, (int, _np.integer)):
            if o < 0:
                return True
            if o == 0:
                return bnot(self._is_zero())
        return SInt.lift(o)._lt(self)

    def __ge__(self, o):
        if isinstance(o, (int, _np.integer)):
            if o <= 0:
                return True
            if o == 1:
                return bnot(self._is_zero())
        return bnot(self._lt(o))

    def __bool__(self):
        r = bnot(ball([bnot(b) for b in self.bits]))
        return bool(r)

    def __hash__(self):
        raise OutOfReach("hash of symbolic int")

    def __index__(self):
        # enumerate feasible values (fork per bit, MSB first)
        v = 0
        for i in reversed(range(len(self.bits))):
            b = self.bits[i]
            v |= (1 if (bool(b)) else 0) << i
        return v

    __int__ = __index__

    def __deepcopy__(self, memo):
        return self

    def to_bytes(self, length=1, byteorder="big", signed=False):
        if len(self.bits) > 8 * length:
            # too big exactly when a bit beyond the requested width is set (decided under the path condition; forks otherwise)
            high = bnot(ball([bnot(self.bit(i)) for i in range(8 * length, len(self.bits))]))
            if bool(high):
                raise OverflowError("int too big to convert")
        by = [SInt(tuple(self.bit(8 * i + j) for j in range(8))).n() for i in range(length)]
        if byteorder == "big":
            by.reverse()
        return SBytes(by).n()

    def bit_length(self):
        raise OutOfReach("bit_length of symbolic int")

    def __repr__(self):
        return "SInt<%d bits>" % len(self.bits)


class SDiff:
    """a - b for symbolic naturals, usable only in (in)equality tests:  a - b == c  <=>  a == b + c"""

    def __getattr__(self, k):
        from .core import ModelGap

        raise ModelGap("'SDiff' proxy has no model of attribute '%s'" % k)


    __slots__ = ("a", "b")

    def __init__(self, a, b):
        self.a, self.b = a, b

    def __eq__(self, o):
        if isinstance(o, SDiff):
            return _lin_eq(SLin.lift(self.a) + SLin.lift(o.b), SLin.lift(self.b) + SLin.lift(o.a))
        if isinstance(o, (int, _np.integer)) and not isinstance(o, bool):
            if o >= 0:
                return _lin_eq(SLin.lift(self.a), SLin.lift(self.b) + int(o))
            return _lin_eq(SLin.lift(self.a) + (-int(o)), SLin.lift(self.b))
        if isinstance(o, (SInt, SLin, SBit)):
            return _lin_eq(SLin.lift(self.a), SLin.lift(self.b) + SLin.lift(o))
        return NotImplemented

    def __ne__(self, o):
        r = self.__eq__(o)
        return bnot(r) if isinstance(r, SBit) else (not r if r is not NotImplemented else r)

    def __hash__(self):
        raise OutOfReach("hash of symbolic int")

    def __deepcopy__(self, memo):
        return self


def _lin_eq(x, y):
    x = x.to_sint() if isinstance(x, SLin) else x
    y = y.to_sint() if isinstance(y, SLin) else y
    if isinstance(x, SInt):
        return x == y
    if isinstance(y, SInt):
        return y == x
    return x == y


class SNeg:
    """-(magnitude) for a symbolic non-negative magnitude: just enough of int for sign-magnitude codecs (abs, unary minus,
    comparison with 0, equality)"""

    def __getattr__(self, k):
        from .core import ModelGap

        raise ModelGap("'SNeg' proxy has no model of attribute '%s'" % k)


    __slots__ = ("mag", "twos")

    def __init__(self, mag, twos=None):
        self.mag = SInt.lift(mag) if not isinstance(mag, SInt) else mag
        self.twos = twos  # the two's complement bits (LSB first) this value was decoded from, if any: encoding it again in
        # the same width gives those bits back without going through two carry chains

    def __abs__(self):
        return self.mag.n()

    def __neg__(self):
        return self.mag.n()

    def __mul__(self, o):
        if isinstance(o, (int, _np.integer)):
            if o == 0:
                return 0
            r = self.mag * abs(int(o))
            return r if o < 0 else (SNeg(r) if isinstance(r, (SInt, SLin)) else -r)
        if isinstance(o, float):
            return SDyadic.of_int(self, o)
        raise OutOfReach("product with a negative symbolic int")

    __rmul__ = __mul__

    def __rshift__(self, k):
        # floor semantics of Python's >> on a negative int:  -(m) >> k == -ceil(m / 2^k)
        k = int(k)
        if k == 0:
            return self
        r = SInt.lift(self.mag + ((1 << k) - 1)) >> k
        return SNeg(r) if isinstance(r, (SInt, SLin, SBit)) else -int(r)

    def _zero(self):
        return self.mag._is_zero()

    def __eq__(self, o):
        if isinstance(o, SNeg):
            return self.mag == o.mag
        if isinstance(o, (int, _np.integer)) and not isinstance(o, bool):
            return (self.mag == -int(o)) if o <= 0 else False
        if isinstance(o, (SInt, SLin, SBit)):  # equal only if both are zero
            return band(self._zero(), SInt.lift(o)._is_zero())
        return NotImplemented

    def __ne__(self, o):
        r = self.__eq__(o)
        return bnot(r) if isinstance(r, SBit) else (not r if r is not NotImplemented else r)

    # -(m) compared with a literal integer c, reduced to comparisons of the magnitude:  -m < c  <=>  m > -c
    def _cmp_int(self, o, op):
        if isinstance(o, (SInt, SLin, SBit)):  # a non-negative symbolic value
            if op in ("lt", "le"):
                return (bnot(band(self._zero(), SInt.lift(o)._is_zero())) if op == "lt" else 1)
            return (band(self._zero(), SInt.lift(o)._is_zero()) if op == "ge" else 0)
        if isinstance(o, SNeg):
            return {"lt": self.mag > o.mag, "le": self.mag >= o.mag, "gt": self.mag < o.mag, "ge": self.mag <= o.mag}[op]
        if not isinstance(o, (int, _np.integer)) or isinstance(o, bool):
            raise OutOfReach("comparison of a negative symbolic int with %s" % type(o).__name__)
        c = -int(o)
        if op == "lt":
            return True if c < 0 else self.mag > c
        if op == "le":
            return True if c <= 0 else self.mag >= c
        if op == "gt":
            return False if c <= 0 else self.mag < c
        return False if c < 0 else self.mag <= c

    def __lt__(self, o):
        return self._cmp_int(o, "lt")

    def __le__(self, o):
        return self._cmp_int(o, "le")

    def __gt__(self, o):
        return self._cmp_int(o, "gt")

    def __ge__(self, o):
        return self._cmp_int(o, "ge")

    def __hash__(self):
        raise OutOfReach("hash of symbolic int")

    def __deepcopy__(self, memo):
        return self

    def __repr__(self):
        return "SNeg<%d bits>" % len(self.mag.bits)


def add_bits(a, b):
    """ripple-carry addition of two little-endian bit lists (exact, result one bit wider at most)"""
    w = max(len(a), len(b))
    out, carry = [], 0
    for i in range(w):
        x = a[i] if i < len(a) else 0
        y = b[i] if i < len(b) else 0
        if not isinstance(x, SBit) and not x and not isinstance(carry, SBit) and not carry:
            out.append(y); continue
        if not isinstance(y, SBit) and not y and not isinstance(carry, SBit) and not carry:
            out.append(x); continue
        out.append(bxor3(x, y, carry))
        carry = bmaj(x, y, carry)
    out.append(carry)
    return out


def bor(a, b):
    return bnot(band(bnot(a), bnot(b)))


def bxor(a, b):
    if isinstance(a, SBit):
        return a ^ b
    if isinstance(b, SBit):
        return b ^ a
    return (1 if a else 0) ^ (1 if b else 0)


def bxor3(a, b, c):
    return bxor(bxor(a, b), c)


def bmaj(a, b, c):
    return bxor(bxor(band(a, b), band(a, c)), band(b, c))


class SLin:
    """integer linear form  sum coeff * bit + k   (what numpy.dot / sum() build)"""

    def __getattr__(self, k):
        from .core import ModelGap

        raise ModelGap("'SLin' proxy has no model of attribute '%s'" % k)


    __slots__ = ("t", "k")

    def __init__(self, t, k):
        self.t = t  # dict poly -> coeff
        self.k = k

    @staticmethod
    def lift(o):
        if isinstance(o, SLin):
            return o
        if isinstance(o, SBit):
            return SLin({o.p: 1}, 0)
        if isinstance(o, (bool, int, _np.integer, _np.bool_)):
            return SLin({}, int(o))
        if isinstance(o, SInt):
            t = {}
            k = 0
            for i, b in enumerate(o.bits):
                if isinstance(b, SBit):
                    t[b.p] = t.get(b.p, 0) + (1 << i)
                elif b:
                    k += 1 << i
            return SLin(t, k)
        raise TypeError(type(o))

    def n(self):
        return self if self.t else self.k

    def __add__(self, o):
        o = SLin.lift(o)
        t = dict(self.t)
        for p, c in o.t.items():
            v = t.get(p, 0) + c
            if v:
                t[p] = v
            else:
                t.pop(p, None)
        return SLin(t, self.k + o.k).n()

    __radd__ = __add__

    def __mul__(self, o):
        if isinstance(o, (SBit, SInt, SLin)):
            o2 = SLin.lift(o)
            if o2.t:
                if not self.t:
                    return o2 * self.k
                raise OutOfReach("non-linear integer product")
            o = o2.k
        o = int(o)
        if o == 0:
            return 0
        return SLin({p: c * o for p, c in self.t.items()}, self.k * o).n()

    __rmul__ = __mul__

    def __mod__(self, m):
        if m == 2:
            p = ONE if self.k & 1 else ZERO
            for q, c in self.t.items():
                if c & 1:
                    p = p ^ q
            return mkbit(p)
        if isinstance(m, int) and m > 0 and m & (m - 1):
            from .arith import from_lin
            return (from_lin(self) % m).to_sint()
        return self.to_sint() % m

    def __divmod__(self, m):
        return (None, self % m)

    def bound(self):
        return self.k + sum(c for c in self.t.values() if c > 0)

    def __index__(self):
        v = self.to_sint()
        return v.__index__() if isinstance(v, SInt) else int(v)

    __int__ = __index__

    def to_bytes(self, length=1, byteorder="big", signed=False):
        return self.to_sint().to_bytes(length, byteorder, signed)

    def to_sint(self):
        """bit-vector form by column compression (3:2 counters); width capped by the interval bound"""
        if any(c < 0 for c in self.t.values()) or self.k < 0:
            raise OutOfReach("negative coefficients")
        width = max(self.bound().bit_length(), 1)
        cols = [[] for _ in range(width + 1)]
        for i in range(self.k.bit_length()):
            if (self.k >> i) & 1:
                cols[i].append(1)
        for p, c in self.t.items():
            for i in range(c.bit_length()):
                if (c >> i) & 1:
                    cols[i].append(SBit(p))
        out = []
        for i in range(width):
            col = cols[i]
            while len(col) > 1:
                if len(col) >= 3:
                    x, y, z = col.pop(), col.pop(), col.pop()
                    col.append(bxor3(x, y, z))
                    cols[i + 1].append(bmaj(x, y, z))
                else:
                    x, y = col.pop(), col.pop()
                    col.append(bxor(x, y))
                    cols[i + 1].append(band(x, y))
            out.append(col[0] if col else 0)
        return SInt(out).n()

    def __eq__(self, o):
        if len(self.t) > 12 and isinstance(o, (int, _np.integer)):
            return self._cmp("eq", o)
        return self.to_sint() == o

    def _cmp(self, op, o):
        """comparison of a wide sum with a constant: word-level (z3 Int) instead of comparator polynomials"""
        import z3 as _z3
        from .arith import from_lin
        from .zint import zbool

        t = from_lin(self).term
        o = int(o)
        if self.t and all(c > 0 for c in self.t.values()):  # interval reasoning first
            lo, hi = self.k, self.bound()
            if op == "le" and hi <= o or op == "lt" and hi < o or op == "ge" and lo >= o or op == "gt" and lo > o:
                return True
            if op == "le" and lo > o or op == "lt" and lo >= o or op == "ge" and hi < o or op == "gt" and hi <= o or op == "eq" and not lo <= o <= hi:
                return False
        return zbool({"le": t <= o, "lt": t < o, "ge": t >= o, "gt": t > o, "eq": t == o}[op])

    def __le__(self, o):
        return self._cmp("le", o) if isinstance(o, (int, _np.integer)) else NotImplemented

    def __lt__(self, o):
        return self._cmp("lt", o) if isinstance(o, (int, _np.integer)) else NotImplemented

    def __ge__(self, o):
        return self._cmp("ge", o) if isinstance(o, (int, _np.integer)) else NotImplemented

    def __gt__(self, o):
        return self._cmp("gt", o) if isinstance(o, (int, _np.integer)) else NotImplemented

    def __hash__(self):
        raise OutOfReach("hash of symbolic int")

    def __and__(self, o):
        if isinstance(o, int) and o & (o + 1) == 0 and 0 <= self.k and self.bound() <= o and all(c > 0 for c in self.t.values()):
            return self  # interval reasoning: mask is the identity
        return self.to_sint() & o

    def __deepcopy__(self, memo):
        return self

    def __repr__(self):
        return "SLin<%d terms>" % len(self.t)


class SDyadic:
    """an exactly represented float:  (-1)^neg * mag * num / 2^exp  with a symbolic natural `mag` and literal num, exp.

    The repository scales raw integer fields by literal powers-of-two fractions (GPS Info: 360 / 2^25, 180 / 2^24) and back.
    IEEE-754 binary64 multiplication / division is correctly rounded, so it is EXACT whenever both operands and the
    mathematical result are representable, i.e. dyadic rationals whose odd part is below 2^53; every operation here checks
    that bound on the widths and refuses (OutOfReach) anything else - a float that is not of this form is never symbolic."""

    __slots__ = ("neg", "mag", "num", "exp", "src")

    def __init__(self, neg, mag, num, exp, src=None):
        self.neg, self.mag, self.num, self.exp = neg, (mag if isinstance(mag, SInt) else SInt.lift(mag)), int(num), int(exp)
        self.src = src  # the integer proxy this float was scaled from (same sign, same magnitude): int() of the unscaled value is it
        if self.num <= 0:
            raise OutOfReach("dyadic value with a non-positive multiplier")
        while self.exp > 0 and not self.num & 1:
            self.num >>= 1
            self.exp -= 1
        if self.mag.width() + self.num.bit_length() > 53:
            raise OutOfReach("float product beyond 53 significant bits: rounding is not modelled")

    def __getattr__(self, k):
        from .core import ModelGap

        raise ModelGap("'SDyadic' proxy has no model of attribute '%s'" % k)

    @staticmethod
    def _ratio(f):
        if isinstance(f, bool) or not isinstance(f, (int, float)):
            raise OutOfReach("float arithmetic with %s" % type(f).__name__)
        if f != f or f in (float("inf"), float("-inf")):
            raise OutOfReach("non-finite float")
        p, q = (f, 1) if isinstance(f, int) else f.as_integer_ratio()
        return (p < 0), abs(p), q.bit_length() - 1  # q is a power of two for every finite float

    @staticmethod
    def of_int(v, f):
        """v * f for a symbolic integer v (SInt / SNeg / SBit / SLin) and a literal float f"""
        fneg, p, e = SDyadic._ratio(f)
        if p == 0:
            return 0.0
        vneg = isinstance(v, SNeg)
        mag = v.mag if vneg else SInt.lift(v)
        return SDyadic(vneg != fneg, mag, p, e, src=(v if not fneg else None))

    def __mul__(self, f):
        fneg, p, e = SDyadic._ratio(f)
        if p == 0:
            return 0.0
        return SDyadic(self.neg != fneg, self.mag, self.num * p, self.exp + e, src=(self.src if not fneg else None))

    __rmul__ = __mul__

    def __truediv__(self, f):
        import math

        fneg, p, e = SDyadic._ratio(f)
        if p == 0:
            raise ZeroDivisionError("float division by zero")
        # (mag num / 2^exp) / (p / 2^e) = mag (num 2^e) / (p 2^exp): exact only if p divides num (after cancelling)
        g = math.gcd(self.num, p)
        num, den = self.num // g, p // g
        if den & (den - 1):
            raise OutOfReach("float quotient that is not a dyadic rational: rounding is not modelled")
        return SDyadic(self.neg != fneg, self.mag, num << e if e >= 0 else num, self.exp + (den.bit_length() - 1) - (0 if e >= 0 else e), src=(self.src if not fneg else None))

    def __neg__(self):
        return SDyadic(not self.neg, self.mag, self.num, self.exp)

    def __abs__(self):
        return SDyadic(False, self.mag, self.num, self.exp)

    def _scaled(self, exp):
        """mag * num * 2^(exp - self.exp) as a symbolic natural (exp >= self.exp)"""
        m = self.mag * self.num
        return (SInt.lift(m) if not isinstance(m, int) else m) << (exp - self.exp)

    def __eq__(self, o):
        if isinstance(o, (int, float)) and not isinstance(o, bool):
            oneg, p, e = SDyadic._ratio(o)
            if p == 0:
                return self.mag._is_zero()
            if p.bit_length() > 53:
                return False
            o = SDyadic(oneg, SInt.lift(p), 1, e) if False else (oneg, p, e)
            E = max(self.exp, e)
            same = SInt.lift(self._scaled(E)) == (p << (E - e))
            return band(tobit(same), 1 if self.neg == oneg else self.mag._is_zero())
        if isinstance(o, SDyadic):
            E = max(self.exp, o.exp)
            same = SInt.lift(self._scaled(E)) == SInt.lift(o._scaled(E))
            if self.neg == o.neg:
                return same
            return band(tobit(same), self.mag._is_zero())  # +0.0 == -0.0
        return NotImplemented

    def __ne__(self, o):
        r = self.__eq__(o)
        return r if r is NotImplemented else (bnot(r) if isinstance(r, SBit) else (not r))

    def __hash__(self):
        raise OutOfReach("hash of symbolic float")

    def __float__(self):
        raise OutOfReach("a symbolic float used where a concrete one is needed")

    def __int__(self):
        raise OutOfReach("int() of a symbolic float outside a module of the code under verification")

    def trunc(self):
        """int(x): truncation towards zero"""
        if self.num == 1 and self.exp == 0 and self.src is not None:
            return self.src
        m = self.mag * self.num
        m = SInt.lift(m) if not isinstance(m, int) else m
        q = m >> self.exp if self.exp > 0 else (m << -self.exp)
        if isinstance(q, int):
            return -q if self.neg else q
        return SNeg(q) if self.neg else q

    def __repr__(self):
        return "SDyadic<%d bits * %d / 2^%d>" % (self.mag.width(), self.num, self.exp)


def as_sint(x):
    """SInt | int"""
    if isinstance(x, (SBit, SLin)):
        return SInt.lift(x)
    return x


# ------------------------------------------------------------------ bitarray model
class SBits:
    def __getattr__(self, k):
        from .core import ModelGap

        raise ModelGap("'SBits' proxy has no model of attribute '%s'" % k)

    def __init__(self, init=None, endian="big"):
        self.endian = endian
        if init is None:
            self.b = []
        elif isinstance(init, SBits):
            self.b = list(init.b)
            self.endian = init.endian if endian == "big" else endian
        elif isinstance(init, _real_bitarray):
            self.b = init.tolist()
            self.endian = init.endian
        elif isinstance(init, str):
            self.b = [int(ch) for ch in init if ch in "01"]
        elif isinstance(init, (int, _np.integer)):
            raise OutOfReach("bitarray(n): uninitialised contents")
        else:
            self.b = [tobit(x) for x in init]

    @staticmethod
    def of(bits, endian="big"):
        r = SBits(endian=endian)
        r.b = list(bits)
        return r

    def __len__(self):
        return len(self.b)

    def __getitem__(self, i):
        if isinstance(i, slice):
            return SBits.of(self.b[i], self.endian)
        return self.b[i]

    def __setitem__(self, i, v):
        if isinstance(i, slice):
            n = len(self.b[i])
            if isinstance(v, (int, bool)):
                self.b[i] = [1 if v else 0] * n
            else:
                vals = [tobit(x) for x in v]
                assert len(vals) == n
                self.b[i] = vals
        else:
            self.b[i] = tobit(v)

    def _other(self, o):
        if isinstance(o, SBits):
            return o.b
        if isinstance(o, _real_bitarray):
            return o.tolist()
        return [tobit(x) for x in o]

    def __add__(self, o):
        return SBits.of(self.b + self._other(o), self.endian)

    def __radd__(self, o):
        e = o.endian if isinstance(o, _real_bitarray) else self.endian
        return SBits.of(self._other(o) + self.b, e)

    def __iadd__(self, o):
        self.b = self.b + self._other(o)
        return self

    def __iter__(self):
        return iter(list(self.b))

    def tolist(self):
        return list(self.b)

    def copy(self):
        return SBits.of(self.b, self.endian)

    def __deepcopy__(self, memo):
        return self.copy()

    def append(self, v):
        self.b.append(tobit(v))

    def extend(self, o):
        self.b.extend(self._other(o))

    def invert(self, i=None):
        if i is None:
            self.b = [bnot(x) for x in self.b]
        else:
            self.b[i] = bnot(self.b[i])

    def reverse(self):
        self.b.reverse()

    def bytereverse(self):
        assert len(self.b) % 8 == 0 or True
        out = []
        for s in range(0, len(self.b), 8):
            chunk = self.b[s : s + 8]
            if len(chunk) < 8:  # real bitarray reverses within the padded byte
                raise OutOfReach("bytereverse of partial byte")
            out.extend(chunk[::-1])
        self.b = out

    def __invert__(self):
        return SBits.of([bnot(x) for x in self.b], self.endian)

    def _chk(self, o):
        ob = self._other(o)
        if len(ob) != len(self.b):
            raise ValueError("bitarrays of equal length expected")
        oe = o.endian if isinstance(o, (SBits, _real_bitarray)) else self.endian
        if oe != self.endian:
            raise ValueError("bitarrays of equal bit-endianness expected")
        return ob

    def __xor__(self, o):
        return SBits.of([bxor(x, y) for x, y in zip(self.b, self._chk(o))], self.endian)

    __rxor__ = __xor__

    def __ixor__(self, o):
        self.b = [bxor(x, y) for x, y in zip(self.b, self._chk(o))]
        return self

    def __and__(self, o):
        return SBits.of([band(x, y) for x, y in zip(self.b, self._chk(o))], self.endian)

    __rand__ = __and__

    def __or__(self, o):
        return SBits.of([bor(x, y) for x, y in zip(self.b, self._chk(o))], self.endian)

    def __lshift__(self, n):
        n = min(int(n), len(self.b))
        return SBits.of(self.b[n:] + [0] * n, self.endian)

    def __ilshift__(self, n):
        n = min(int(n), len(self.b))
        self.b = self.b[n:] + [0] * n
        return self

    def __rshift__(self, n):
        n = min(int(n), len(self.b))
        return SBits.of([0] * n + self.b[: len(self.b) - n], self.endian)

    def __eq__(self, o):
        if not isinstance(o, (SBits, _real_bitarray)):
            return False
        ob = self._other(o)
        if len(ob) != len(self.b):
            return False
        r = ball([beq(x, y) for x, y in zip(self.b, ob)])
        return r if isinstance(r, SBit) else bool(r)

    def __ne__(self, o):
        r = self.__eq__(o)
        return bnot(r) if isinstance(r, SBit) else not r

    def __ge__(self, o):
        # lexicographic; only the "has top bit" idiom of the CRC register is supported
        ob = self._other(o)
        if len(ob) == len(self.b) and ob and ob[0] == 1 and all(x == 0 and not isinstance(x, SBit) for x in ob[1:]):
            x = self.b[0]
            return x if isinstance(x, SBit) else bool(x)
        raise OutOfReach("bitarray >=")

    def __bool__(self):
        return len(self.b) > 0

    def __hash__(self):
        raise TypeError("unhashable")

    def any(self):
        """bitarray.any(): some bit set (a symbolic truth value: forks where the caller branches on it)"""
        return bnot(ball([bnot(tobit(x)) for x in self.b])) if self.b else False

    def all(self):
        return ball([tobit(x) for x in self.b]) if self.b else True

    def count(self, value=1, *rng):
        if rng:
            raise OutOfReach("bitarray.count with a range")
        tot = SLin({}, 0)
        for x in self.b:
            tot = tot + (tobit(x) if value else bnot(tobit(x)))
        return tot.n() if isinstance(tot, SLin) else tot

    def tobytes(self):
        bits = list(self.b)
        while len(bits) % 8:
            bits.append(0)
        out = []
        for s in range(0, len(bits), 8):
            ch = bits[s : s + 8]
            if self.endian == "big":
                ch = ch[::-1]
            out.append(SInt(ch).n())
        return SBytes(out).n()

    def frombytes(self, data):
        for by in data:
            by = SInt.lift(by)
            ch = [by.bit(j) for j in range(8)]
            if self.endian == "big":
                ch = ch[::-1]
            self.b.extend(ch)

    def to01(self):
        if any(isinstance(x, SBit) for x in self.b):
            raise OutOfReach("to01 of symbolic bits")  # (a string that could be used as a dictionary key: not a token)
        return "".join(str(x) for x in self.b)

    def conc(self):
        if any(isinstance(x, SBit) for x in self.b):
            return None
        return _real_bitarray(self.b, endian=self.endian)

    def __repr__(self):
        return "SBits<%d,%s>" % (len(self.b), self.endian)


def s_ba2int(a, signed=False):
    if isinstance(a, _real_bitarray):
        return _real_ba2int(a, signed=signed)
    if len(a) == 0:
        raise ValueError("non-empty bitarray expected")
    bits = a.b[::-1] if a.endian == "big" else list(a.b)
    if signed:
        # two's complement: decide the sign bit (forks when both signs are feasible); negative: -(2^n - u)
        top = tobit(bits[-1])
        if not bool(top):
            return SInt(bits[:-1]).n() if len(bits) > 1 else 0
        low = SInt([bnot(tobit(b)) for b in bits[:-1]]).n() if len(bits) > 1 else 0
        r = low + 1
        return SNeg(r, twos=list(bits)) if not isinstance(r, int) else -r
    return SInt(bits).n()


def s_int2ba(v, length=None, endian="big", signed=False):
    if isinstance(v, (SBit, SLin)):
        v = SInt.lift(v)
    if isinstance(v, SNeg):
        if not signed:
            if bool(v.mag._is_zero()):
                return SBits(_real_int2ba(0, length=length, endian=endian))
            raise OverflowError("unsigned integer not in range")
        if length is None:
            raise OutOfReach("int2ba without length")
        if v.twos is not None and len(v.twos) == length:
            bits = list(reversed(v.twos))
            return SBits.of(bits if endian == "big" else bits[::-1], endian)
        m = v.mag
        # representable iff mag <= 2^(length-1)
        too_big = bnot(ball([bnot(b) for b in m.bits[length - 1:]])) if m.width() >= length else 0
        if m.width() >= length and bool(band(too_big, bnot(SInt.lift(m) == (1 << (length - 1))))):
            raise OverflowError("signed integer not in range")
        inv = SInt([bnot(m.bit(i)) for i in range(length)])
        t = SInt.lift(inv + 1)
        bits = [t.bit(length - 1 - i) for i in range(length)]
        return SBits.of(bits if endian == "big" else bits[::-1], endian)
    if isinstance(v, SInt) and signed:
        if length is None:
            raise OutOfReach("int2ba without length")
        if v.width() > length - 1:
            hi = bnot(ball([bnot(b) for b in v.bits[length - 1:]]))
            if bool(hi):
                raise OverflowError("signed integer not in range")
        bits = [v.bit(length - 1 - i) for i in range(length)]
        return SBits.of(bits if endian == "big" else bits[::-1], endian)
    if isinstance(v, SInt):
        if length is None:
            raise OutOfReach("int2ba without length")
        if v.width() > length:
            # value may not fit: obligation-relevant; decide by checking high bits
            hi = bnot(ball([bnot(b) for b in v.bits[length:]]))
            if bool(hi):
                raise OverflowError("unsigned integer not in range")
        bits = [v.bit(length - 1 - i) for i in range(length)]
        return SBits.of(bits if endian == "big" else bits[::-1], endian)
    r = _real_int2ba(int(v), length=length, endian=endian, signed=signed)
    return SBits(r)


# ------------------------------------------------------------------ bytes model
def _is_octets(o):
    return isinstance(o, (bytes, bytearray)) or type(o).__name__ in ("SBytes", "ZBytes", "SByteArray")


class ByteSeqOps:
    """methods of bytes / bytearray shared by the octet-string proxies, each expressed through the proxy's own slicing,
    concatenation and equality (so that they mean the same for bit-level and word-level octets); a comparison of symbolic
    contents yields a symbolic truth value, which forks where the code under verification branches on it"""

    def startswith(self, prefix, start=None, end=None):
        if isinstance(prefix, tuple):
            for q in prefix:
                if self.startswith(q, start, end):
                    return True
            return False
        if not _is_octets(prefix):
            raise TypeError("startswith first arg must be bytes or a tuple of bytes, not %s" % type(prefix).__name__)
        s = self[slice(start, end)]
        n = len(prefix)
        if len(s) < n:
            return False
        return s[:n] == prefix

    def endswith(self, suffix, start=None, end=None):
        if isinstance(suffix, tuple):
            for q in suffix:
                if self.endswith(q, start, end):
                    return True
            return False
        if not _is_octets(suffix):
            raise TypeError("endswith first arg must be bytes or a tuple of bytes, not %s" % type(suffix).__name__)
        s = self[slice(start, end)]
        n = len(suffix)
        if len(s) < n:
            return False
        return s[len(s) - n:] == suffix

    @staticmethod
    def _fill(fill):
        if not _is_octets(fill) or len(fill) != 1:
            raise TypeError("fill argument must be a byte string of length 1")
        return fill

    def ljust(self, width, fill=b" "):
        fill = ByteSeqOps._fill(fill)
        return self[:] + fill * max(0, width - len(self))

    def rjust(self, width, fill=b" "):
        fill = ByteSeqOps._fill(fill)
        return fill * max(0, width - len(self)) + self[:]

    def join(self, parts):
        return join_octets(self, parts)

    def __rmul__(self, k):
        return self.__mul__(k)

    def __contains__(self, x):
        if _is_octets(x):
            n = len(x)
            for i in range(len(self) - n + 1):
                if self[i:i + n] == x:
                    return True
            return False
        for y in self:
            if y == x:
                return True
        return False


def join_octets(sep, parts):
    """bytes.join for parts that may be proxies"""
    parts = list(parts)
    for q in parts:
        if not _is_octets(q):
            raise TypeError("sequence item: expected a bytes-like object, %s found" % type(q).__name__)
    if all(isinstance(q, (bytes, bytearray)) for q in parts) and isinstance(sep, (bytes, bytearray)):
        return bytes(sep).join(parts) if type(sep) is not bytearray else bytearray(sep).join(parts)
    out = b""
    for i, q in enumerate(parts):
        if i and len(sep):
            out = out + sep
        if type(q).__name__ == "SByteArray":
            q = SBytes(q.v).n()
        out = out + q
    return out


class KBytes(bytes):
    """a bytes LITERAL of the code under verification (constants of the code objects are re-typed, nothing else of the code
    changes): behaves as the bytes it is, except that methods taking other octet strings accept proxies"""

    def join(self, parts):
        parts = list(parts)
        return join_octets(bytes(self), parts)

    def startswith(self, prefix, *a):
        if type(prefix).__name__ in ("SBytes", "ZBytes", "SByteArray"):
            return ByteSeqOps.startswith(SBytes(list(self)), prefix, *a)
        return bytes.startswith(self, prefix, *a)

    def endswith(self, suffix, *a):
        if type(suffix).__name__ in ("SBytes", "ZBytes", "SByteArray"):
            return ByteSeqOps.endswith(SBytes(list(self)), suffix, *a)
        return bytes.endswith(self, suffix, *a)

    def __deepcopy__(self, memo):
        return self

    def __reduce__(self):
        return (bytes, (bytes(self),))


class SBytes(ByteSeqOps):
    def __getattr__(self, k):
        from .core import ModelGap

        raise ModelGap("'SBytes' proxy has no model of attribute '%s'" % k)

    def __init__(self, items):
        self.v = [as_sint(x) if not isinstance(x, (int, _np.integer)) else int(x) for x in items]

    def n(self):
        if all(isinstance(x, int) for x in self.v):
            return bytes(self.v)
        return self

    def __len__(self):
        return len(self.v)

    def __getitem__(self, i):
        if isinstance(i, slice):
            return SBytes(self.v[i]).n()
        return self.v[i]

    def __iter__(self):
        return iter(list(self.v))

    def __add__(self, o):
        return SBytes(self.v + list(o)).n()

    def __radd__(self, o):
        return SBytes(list(o) + self.v).n()

    def __mul__(self, k):
        return SBytes(self.v * k).n()

    def __eq__(self, o):
        if not isinstance(o, (bytes, bytearray, SBytes)):
            return False
        ov = list(o)
        if len(ov) != len(self.v):
            return False
        r = ball([(SInt.lift(x) == y) for x, y in zip(self.v, ov)])
        return r if isinstance(r, SBit) else bool(r)

    def __ne__(self, o):
        r = self.__eq__(o)
        return bnot(r) if isinstance(r, SBit) else not r

    def __hash__(self):
        raise OutOfReach("hash of symbolic bytes")

    def __deepcopy__(self, memo):
        return self

    def hex(self, *a):
        # formatting of symbolic contents only ever feeds log lines / exception messages in the code under contract:
        # a placeholder token (DESIGN 2.1 "Formatting"); anything that tried to parse it back would raise ValueError
        return "<symbolic-bytes>"

    def decode(self, *a, **k):
        raise OutOfReach("decode of symbolic bytes")

    def __repr__(self):
        return "SBytes<%d>" % len(self.v)


def s_int_from_bytes(b, byteorder="big", signed=False):
    if isinstance(b, (SBits, _real_bitarray)):
        b = b.tobytes()  # buffer protocol of bitarray == its bytes
    if isinstance(b, (bytes, bytearray)):
        return int.from_bytes(b, byteorder, signed=signed)
    items = list(b)
    if byteorder == "big":
        items = items[::-1]
    if signed:
        # two's complement: decide the sign bit (forks when both signs are feasible); a negative value is -(2^n - u)
        if any(type(x).__name__ == "SZInt" for x in items) or not items:
            raise OutOfReach("signed from_bytes of word-level octets")
        u = s_int_from_bytes(b, byteorder, signed=False)
        n = 8 * len(items)
        if isinstance(u, int):
            return u - (1 << n) if u >> (n - 1) else u
        u = SInt.lift(u)
        if not bool(u.bit(n - 1)):
            return SInt([u.bit(i) for i in range(n - 1)]).n()
        low = SInt([bnot(u.bit(i)) for i in range(n - 1)]).n()  # 2^n - u = (~u & (2^(n-1) - 1)) + 1 when the sign bit is set
        return SNeg(low + 1)
    if any(type(x).__name__ == "SZInt" for x in items):  # word-level octets: the value stays a linear integer term
        z = getattr(b, "zsrc", None)
        if z is not None and z[1] == byteorder:
            return z[0]
        v = 0
        for i, x in enumerate(items):
            v = x * (1 << (8 * i)) + v
        return v
    bits = []
    for x in items:
        x = SInt.lift(x)
        bits.extend(x.bit(j) for j in range(8))
    return SInt(bits).n()
