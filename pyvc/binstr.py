"""model of the '0'/'1' strings produced by bin() on a symbolic int"""
import builtins
from .values import SBit, SInt, SLin, ball, beq, bnot, mkbit
from .core import OutOfReach


class SBinStr:
    def __getattr__(self, k):
        from .core import ModelGap

        raise ModelGap("'SBinStr' proxy has no model of attribute '%s'" % k)

    def __init__(self, items):
        self.c = list(items)  # each: a one-char str, or an SBit standing for chr(ord('0')+bit)

    def __len__(self):
        return len(self.c)

    def __getitem__(self, i):
        if isinstance(i, slice):
            r = SBinStr(self.c[i])
            return r.n()
        return self.c[i]

    def n(self):
        if all(isinstance(x, str) for x in self.c):
            return "".join(self.c)
        return self

    def __eq__(self, o):
        if isinstance(o, str):
            if len(o) != len(self.c):
                return False
            conds = []
            for x, ch in zip(self.c, o):
                if isinstance(x, str):
                    if x != ch:
                        return False
                elif ch == "1":
                    conds.append(x)
                elif ch == "0":
                    conds.append(bnot(x))
                else:
                    return False
            r = ball(conds)
            return r if isinstance(r, SBit) else bool(r)
        return NotImplemented

    def __hash__(self):
        raise OutOfReach("hash of symbolic string")

    def count(self, ch):
        """number of occurrences of a one-character string (bin(x).count("1") = population count)"""
        if ch not in ("0", "1", "b"):
            return 0
        tot = 0
        for x in self.c:
            if isinstance(x, str):
                tot = tot + (1 if x == ch else 0)
            elif ch == "1":
                tot = x + tot
            elif ch == "0":
                tot = bnot(x) + tot
        return tot

    def to_int(self, base):
        assert base == 2
        bits = []
        for x in reversed(self.c):
            if isinstance(x, str):
                if x not in "01":
                    raise ValueError("invalid literal")
                bits.append(int(x))
            else:
                bits.append(x)
        return SInt(bits).n()


class LazyBin:
    """bin(v) of a symbolic int, not yet materialised: population count needs no knowledge of the length; every other
    use forks on the position of the most significant set bit (materialise)"""

    def __getattr__(self, k):
        from .core import ModelGap

        raise ModelGap("'LazyBin' proxy has no model of attribute '%s'" % k)


    def __init__(self, v):
        self._v = v
        self._m = None

    def _mat(self):
        if self._m is None:
            self._m = _materialise(self._v)
        return self._m

    def count(self, ch):
        if ch == "1":
            tot = 0
            for b in self._v.bits:
                tot = b + tot
            return tot
        return self._mat().count(ch)

    def __len__(self):
        return len(self._mat())

    def __getitem__(self, i):
        return self._mat()[i]

    def __eq__(self, o):
        return self._mat() == o

    def __hash__(self):
        raise OutOfReach("hash of symbolic string")

    def to_int(self, base):
        return self._mat().to_int(base)


def s_bin(v):
    if isinstance(v, (SBit, SLin)):
        v = SInt.lift(v)
    if not isinstance(v, SInt):
        return builtins.bin(v)
    return LazyBin(v)


def _materialise(v):
    # fork on the position of the most significant set bit
    for top in reversed(range(v.width())):
        b = v.bits[top]
        if bool(b):  # branch
            digits = ["1"] + [v.bits[i] if isinstance(v.bits[i], SBit) else str(v.bits[i]) for i in reversed(range(top))]
            return SBinStr(["0", "b"] + digits)
    return "0b0"
