"""symbolically indexable views of concrete tables"""
from .core import ONE, ZERO, pmul, Undecided, OutOfReach
from .values import SBit, SInt, SLin, SBits, mkbit, bitpoly, as_sint, tobit
from bitarray import bitarray as _real_bitarray
import numpy as _np


def mobius(col, k):
    """col: list of 2^k bits (truth table, index = assignment) -> ANF coefficients list (same indexing by monomial mask)"""
    a = list(col)
    for i in range(k):
        step = 1 << i
        for j in range(1 << k):
            if j & step:
                a[j] ^= a[j ^ step]
    return a


_ANF_CACHE = {}


def compose(col, idx_polys, key=None):
    """Boolean function given by truth table col over k index bits (LSB first polys) -> poly.
    key: hashable identity of (table, output bit) for caching the algebraic normal form"""
    k = len(idx_polys)
    masks = _ANF_CACHE.get((key, k)) if key is not None else None
    if masks is None:
        anf = mobius(col() if callable(col) else col, k)
        masks = [m for m, c in enumerate(anf) if c]
        if key is not None:
            _ANF_CACHE[(key, k)] = masks
    out = ZERO
    cache = {0: ONE}
    for mask in masks:
        c = 1
        if not c:
            continue
        # product of idx polys in mask (memoised on mask with lowest bit removed)
        def prod(m):
            if m in cache:
                return cache[m]
            low = m & -m
            r = pmul(prod(m ^ low), idx_polys[low.bit_length() - 1])
            if r is None:
                raise Undecided("table composition blow-up")
            cache[m] = r
            return r
        out = out ^ prod(mask)
    return out


class SymList(list):
    def _key(self):
        k = getattr(self, "_pyvc_key", None)
        if k is None:  # content-derived identity of the table (the list is a constant table; never mutated)
            k = hash(tuple((e.to01() if hasattr(e, "to01") else tuple(e.tolist()) if hasattr(e, "tolist") else e) for e in list.__iter__(self)))
            self._pyvc_key = k
        return k

    def __getitem__(self, i):
        if isinstance(i, (SBit, SLin)):
            i = SInt.lift(i)
        if not isinstance(i, SInt):
            r = list.__getitem__(self, i)
            return SBits(r) if isinstance(r, _real_bitarray) else r
        k = i.width()
        if k > 16:
            raise OutOfReach("table index too wide")
        n = len(self)
        if (1 << k) > n:
            # index may be out of range: decide (forks) – raises IndexError on that branch
            if not (i < n):
                raise IndexError("list index out of range")
        idx_polys = [bitpoly(b) for b in i.bits]
        entries = [list.__getitem__(self, j) if j < n else list.__getitem__(self, 0) for j in range(1 << k)]
        e0 = entries[0]
        if isinstance(e0, (SBits, _real_bitarray)):
            L = len(e0)
            rows = None

            def column(b):
                def f():
                    nonlocal rows
                    if rows is None:
                        rows = [e.tolist() for e in entries]
                    return [int(r[b]) for r in rows]
                return f

            bits = [mkbit(compose(column(b), idx_polys, key=(self._key(), b))) for b in range(L)]
            return SBits.of(bits, e0.endian)
        if isinstance(e0, (int, _np.integer)) and all(int(e) >= 0 for e in entries):
            w = max(int(e).bit_length() for e in entries)
            return SInt([mkbit(compose([(int(e) >> b) & 1 for e in entries], idx_polys, key=(self._key(), b))) for b in range(w)]).n()
        raise OutOfReach("symbolic index into table of %s" % type(e0))
