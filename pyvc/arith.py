"""arithmetic terms: word-level z3 expressions with native evaluators; bits are 'arith' gate atoms"""
import z3
from . import core
from .core import C, pvar
from .values import SBit, SInt, SLin, mkbit


class SArith:
    def __getattr__(self, k):
        from .core import ModelGap

        raise ModelGap("'SArith' proxy has no model of attribute '%s'" % k)

    def __init__(self, term, pyfn, operands, lo, hi):
        self.term, self.pyfn, self.operands, self.lo, self.hi = term, pyfn, operands, lo, hi
        self._bits = {}

    def bit(self, i):
        if (self.hi >> i) == 0:
            return 0
        if i not in self._bits:
            key = ("arith", self.term.get_id(), i)
            a = C.gate_cache.get(key)
            if a is None:
                a = C.fresh(f"ar{C.natoms}")
                C.gates[a] = ("arith", self, i)
                C.gate_cache[key] = a
            self._bits[i] = SBit(pvar(a))
        return self._bits[i]

    def to_sint(self):
        return SInt([self.bit(i) for i in range(self.hi.bit_length())]).n()

    def __mod__(self, m):
        m = int(m)
        return SArith(self.term % m, lambda *ops, f=self.pyfn: f(*ops) % m, self.operands, 0, min(self.hi, m - 1))

    def __and__(self, mask):
        mask = int(mask)
        if mask & (mask + 1) == 0 and self.hi <= mask:
            return self  # identity by interval reasoning
        raise core.OutOfReach("mask on arithmetic term")

    def __hash__(self):
        raise core.OutOfReach("hash")


def z3_of_poly(p):
    return z3.If(core.z3poly(p), 1, 0)


def from_lin(l):
    """SLin -> SArith"""
    polys = list(l.t.items())
    term = z3.IntVal(l.k)
    for p, c in polys:
        term = term + c * z3_of_poly(p)
    ops = [SBit(p) for p, _ in polys]
    coeffs = [c for _, c in polys]
    return SArith(term, lambda *bits, k=l.k, cs=coeffs: k + sum(c * b for c, b in zip(cs, bits)), ops, l.k, l.bound())
